"""C09 -- parsing and rendering always terminate within the stack.

Bounded exhaustive enumeration on the real implementation (no sampling):

(i) PARSING.  M: every malformed source of <= k fragments (mc.gen.programs.malformed);
    S: for every block tag (builtin, extra, an unregistered one) every sequence of 1..4 pieces of
    the tag's alphabet {opener, opener with missing expression, inner tags, end tags, a foreign
    opener/end, the opener as a `liquid` line, a bare "{%"} x {no text, text between} x {no
    trailing text, trailing text};  X: sequences of lexer-level pieces (unterminated raw /
    comment / doc / delimiters / template comments);  Q: `liquid` tags made of 1..4 lines with
    6 terminations;  N: b nested openers (b around the block nesting limit) without any end tag;
    E: regex/lexer blow-up shapes -- in every expression position an opening quote that is never
    closed followed by a 30..60 character tail, and 200 repetitions of one fragment -- parsed in a
    forked child under a kernel CPU limit because a C-level regex match cannot be interrupted.
    All in STRICT and LAX.
    Oracle: from_string returns or raises within a deterministic STEP BUDGET on the token stream
    (mc/ref/c09_monitor.py); a RecursionError, raw or wrapped in a LiquidError, is a violation;
    a CPU-time alarm is only a backstop that reports a hang.

(ii) RENDERING.  R: families of 1..3 templates t0 -> t1 -> .. -> t0 whose links are include,
    render, extends, call (macro), callbody (link inside the macro body), snippet, extendsin
    (extends tag inside the wrappers) and all mixtures, the link sitting inside b nested blocks
    of one wrapper kind (if / for / capture / with / block / case / unless / mixed) for every
    b in 0..block_nesting_limit, under the default limits and smaller context_depth_limit values;
    RL: the include/render/extends cycles again over loaders whose template path or name spelling
    differs from the name written in the tag (FileSystemLoader, CachingFileSystemLoader on a temp
    directory, names spelled './x'), sync and async;
    D: non-recursive nesting at limit-1, limit, limit+1.
    Oracle: outcome in {output, ContextDepthError, TemplateInheritanceError, other LiquidError};
    RecursionError (raw, or as the cause of a LiquidError, or swallowed in LAX mode and seen by
    Environment.error) is a violation; so is exceeding the template-load budget or the backstop.
    Every render case runs in a fresh thread: the library is entered at Python frame depth
    ENTRY_DEPTH+1 = 6 with sys.getrecursionlimit() == 1000, whatever the runner's own stack is.
"""

from __future__ import annotations

import itertools
import os
import shutil
import sys
import tempfile
import warnings
from typing import Any
from typing import Iterator
from typing import Optional

from liquid import Environment
from liquid import Mode
from liquid.exceptions import LiquidError

from mc import util as U
from mc.core import Check
from mc.core import Result
from mc.gen import programs as G
from mc.ref import c09_gen as GEN
from mc.ref import c09_monitor as MON

RECURSION_LIMIT = 1000  # the CPython default; the check insists on it
PARSE_BACKSTOP_S = 5.0
RENDER_BACKSTOP_S = 20.0
E_POSITIONS_PER_SHARD = 4
MAX_BACKSTOP_HANGS_PER_SHARD = 3
MAX_BUDGET_HANGS_PER_SHARD = 8  # after that many non-terminating renders the shard stops (it already fails)
LOAD_C = 20  # render step budget: template loads <= LOAD_C * (context_depth_limit + 10); observed maximum 128 at limit 30

CUTOFF_ERRORS = ("ContextDepthError", "TemplateInheritanceError")
ALLOWED = "output | ContextDepthError | TemplateInheritanceError | other LiquidError"


# ---------------------------------------------------------------------------
# environments
# ---------------------------------------------------------------------------
class C09Env(Environment):
    """Environment.error is the documented choke point for tolerated errors: record the ones
    that are a stack exhaustion in disguise (LAX mode swallows them)."""

    c09_masked: list[str] = []

    def error(self, exc: Any, msg: Optional[str] = None, token: Any = None) -> None:
        if (isinstance(exc, BaseException) and caused_by_recursion(exc)
                and type(exc).__name__ not in ("ContextDepthError", "TemplateInheritanceError")):
            self.c09_masked.append(type(exc).__name__)
        return super().error(exc, msg=msg, token=token)


def caused_by_recursion(exc: BaseException) -> bool:
    seen = 0
    e: Optional[BaseException] = exc
    while e is not None and seen < 50:
        if isinstance(e, RecursionError):
            return True
        e = e.__cause__ or e.__context__
        seen += 1
    return False


_ENVS: dict[Any, Environment] = {}


def get_env(mode: str, limits: Optional[dict[str, int]] = None, comments: bool = False,
            purpose: str = "parse") -> Environment:
    """One environment per configuration AND purpose: render cases swap ``env.loader`` for every case,
    so they must never share an environment object with the parse families (whose skeletons render
    `{% extends 'p' %}` / `{% include 'p' %}` against the fixed {"p": ...} loader)."""
    key = (purpose, mode, tuple(sorted((limits or {}).items())), comments)
    env = _ENVS.get(key)
    if env is None:
        kw: dict[str, Any] = {}
        if comments:
            kw["template_comments"] = True
        env = U.make_env(limits=limits or {}, base=C09Env, extra=True, tolerance=U.MODES[mode],
                         templates={"p": "(p)"}, **kw)
        try:
            from liquid.extra import SnippetTag

            env.add_tag(SnippetTag)
        except ImportError:  # the experimental tag is optional
            pass
        env.c09_masked = []  # type: ignore[attr-defined]
        _ENVS[key] = env
    return env


def last_repo_frame(exc: BaseException) -> str:
    """file:function of the innermost library frame, without touching linecache."""
    tb = exc.__traceback__
    best = "?"
    n = 0
    while tb is not None and n < 5000:
        fn = tb.tb_frame.f_code.co_filename
        if "/liquid/" in fn:
            best = fn.split("/liquid/", 1)[1] + ":" + tb.tb_frame.f_code.co_name
        tb = tb.tb_next
        n += 1
    return best


RENDER_ENTRY_NAMES = ("render_with_context", "render_with_context_async")  # public BoundTemplate API


def render_levels(exc: BaseException) -> int:
    """How many template renders were nested when the stack ran out (read off the traceback, so
    that no harness frame has to sit on the recursion path).  0 = could not tell."""
    tb = exc.__traceback__
    n = 0
    frames: set[int] = set()  # a frame that catches and re-raises shows up twice in the traceback
    while tb is not None and n < 20000:
        if tb.tb_frame.f_code.co_name in RENDER_ENTRY_NAMES:
            frames.add(id(tb.tb_frame))
        tb = tb.tb_next
        n += 1
    return len(frames)


# ---------------------------------------------------------------------------
# isolated (forked, kernel CPU limit) parsing: confirmation of backstop suspicions and the
# regex/lexer blow-up family
# ---------------------------------------------------------------------------
def parse_label(src: str, mode: str, comments: bool, render: bool) -> str:
    """Parse (and optionally render) one source with no alarm at all; a short outcome label."""
    env = get_env(mode, None, comments)
    MON.install_stream_monitor()
    MON.begin_parse(len(src))
    tpl = None
    try:
        try:
            tpl = env.from_string(src)
            label = "ok"
        except LiquidError as e:
            label = "liquid:" + type(e).__name__
            if caused_by_recursion(e):
                label = "RecursionError(as " + type(e).__name__ + ")"
        except RecursionError:
            label = "RecursionError"
        except Exception as e:  # noqa: BLE001
            label = "other:" + type(e).__name__
    except MON.StepBudgetExceeded as e:
        label = "hang:" + e.kind
    finally:
        MON.end_parse()
    if render and tpl is not None:
        try:
            tpl.render(**GEN.DATA)
        except RecursionError:
            label = "render:RecursionError"
        except Exception:  # noqa: BLE001
            pass
    return label


def isolated_parse(items: list[tuple[str, str, bool, bool]], cpu_s: int = MON.ISOLATED_CPU_S,
                   ) -> tuple[dict[int, str], Optional[int], float, Optional[int]]:
    """Parse ``items`` = [(source, mode, comments, render)] one after the other in ONE forked child
    under RLIMIT_CPU.  Returns (labels by index, index the child was working on when it was
    killed or None, CPU seconds that source alone had consumed, signal)."""
    import time as _time

    def work(emit: Any) -> None:
        for i, (src, mode, comments, render) in enumerate(items):
            t0 = _time.process_time()
            emit({"i": i, "cpu": t0})
            label = parse_label(src, mode, comments, render)
            dur = _time.process_time() - t0
            if dur > PARSE_BACKSTOP_S:
                # The first thing a freshly forked child of a large worker runs also pays for that worker's
                # copy-on-write page faults (seconds of system time in the thorough tier, where a worker holds
                # millions of case hashes).  The parse terminated, so time it once more: a parse that really
                # needs this long needs it both times.
                t1 = _time.process_time()
                label = parse_label(src, mode, comments, render)
                dur = min(dur, _time.process_time() - t1)
            emit({"i": i, "label": label, "done": t0 + dur})

    out, sig = MON.run_isolated(work, cpu_s)
    labels: dict[int, str] = {}
    announced: dict[int, float] = {}
    for o in out:
        if "label" in o:
            labels[o["i"]] = o["label"]
            if o["done"] - announced.get(o["i"], o["done"]) > PARSE_BACKSTOP_S:
                # finished, but only after seconds of CPU: not "promptly"
                labels[o["i"]] = f"hang:slow({o['done'] - announced[o['i']]:.0f}s cpu):" + o["label"]
        else:
            announced[o["i"]] = o["cpu"]
    if sig is None:
        return labels, None, 0.0, None
    pending = [i for i in announced if i not in labels]
    culprit = max(pending) if pending else (max(labels) + 1 if labels else 0)
    own = cpu_s - announced.get(culprit, 0.0)
    return labels, culprit, own, sig


# ---------------------------------------------------------------------------
# one parse case
# ---------------------------------------------------------------------------
class ParseRunner:
    """Runs parse cases in the worker's main thread under the stream monitor + alarm."""

    def __init__(self, res: Result):
        self.res = res
        self.max_stall = 0
        self.max_ratio = 0.0
        MON.install_stream_monitor()
        if sys.getrecursionlimit() != RECURSION_LIMIT:
            raise RuntimeError(f"C09 must run with the default recursion limit, found {sys.getrecursionlimit()}")

    def one(self, arm: Any, family: str, ident: Any, src: str, mode: str, *, comments: bool = False,
            nontrivial: bool = True, render_after: bool = False) -> None:
        res = self.res
        env = get_env(mode, None, comments)
        env.c09_masked.clear()  # type: ignore[attr-defined]
        case = {"phase": "parse", "family": family, "mode": mode, "source": src, "comments": comments}
        label = "?"
        tpl = None
        viol: Optional[tuple[dict[str, Any], str]] = None
        MON.begin_parse(len(src))
        try:
            arm(PARSE_BACKSTOP_S)
            try:
                tpl = env.from_string(src)
                label = "ok"
            except LiquidError as e:
                label = "liquid:" + type(e).__name__
                if caused_by_recursion(e):
                    viol = ({"clause": "parse-within-stack", "phase": "parse", "family": family, "mode": mode,
                             "exc": "RecursionError", "surfaced_as": type(e).__name__},
                            f"parse of {src[:120]!r} in {mode} exhausted the Python stack "
                            f"(RecursionError wrapped in {type(e).__name__})")
            except RecursionError as e:
                label = "RecursionError"
                viol = ({"clause": "parse-within-stack", "phase": "parse", "family": family, "mode": mode,
                         "exc": "RecursionError", "surfaced_as": "RecursionError"},
                        f"parse of {src[:120]!r} in {mode} raised RecursionError at {last_repo_frame(e)}")
            except Exception as e:  # noqa: BLE001  terminated; which class escapes is C02's business
                label = "other:" + type(e).__name__
                res.count("parse_non_liquid_exception_terminated(C02 territory)")
            finally:
                arm(0)
        except MON.StepBudgetExceeded as e:
            arm(0)
            label = "hang:" + e.kind
            viol = ({"clause": "parse-terminates", "phase": "parse", "family": family, "mode": mode, "how": e.kind},
                    f"parse of {src[:120]!r} in {mode} exceeded the token-stream step budget ({e.detail}; "
                    f"limit {MON.STALL_LIMIT} calls without advancing / {MON.TOTAL_C}*(chars+1)^2+{MON.TOTAL_FLOOR} calls)")
        except MON.CaseHang:
            arm(0)
            MON.end_parse()
            # only a suspicion: confirm alone, in a forked child under a kernel CPU limit
            labels, culprit, _, sig = isolated_parse([(src, mode, comments, False)])
            if culprit is None:
                res.count("backstop_spurious")
                label = labels.get(0, "?")
                if label.startswith("hang:"):
                    # finished in the child too, but again only after > PARSE_BACKSTOP_S of CPU (or over the
                    # step budget): confirmed by two independent executions
                    viol = ({"clause": "parse-terminates", "phase": "parse", "family": family, "mode": mode,
                             "how": "slow-twice(worker and isolated child)"},
                            f"parse of {src[:120]!r} in {mode} exceeded {PARSE_BACKSTOP_S}s of CPU in the worker and again "
                            f"alone in a forked child: {label}")
                elif label.startswith("RecursionError"):
                    viol = ({"clause": "parse-within-stack", "phase": "parse", "family": family, "mode": mode,
                             "exc": "RecursionError", "surfaced_as": label},
                            f"parse of {src[:120]!r} in {mode} exhausted the Python stack ({label}, isolated child)")
            else:
                label = "hang:cpu-limit"
                viol = ({"clause": "parse-terminates", "phase": "parse", "family": family, "mode": mode,
                         "how": "cpu-limit-isolated-child"},
                        f"parse-hang (CPU limit in isolated child): parse of {src[:120]!r} in {mode} did not finish "
                        f"within {PARSE_BACKSTOP_S}s of CPU time in the worker and, re-run alone in a forked child, was "
                        f"killed by RLIMIT_CPU={MON.ISOLATED_CPU_S}s (signal {sig}); hang outside the token stream")
        finally:
            arm(0)
        calls, stall = MON.end_parse()
        if stall > self.max_stall:
            self.max_stall = stall
        ratio = calls / (len(src) + 1)
        if ratio > self.max_ratio:
            self.max_ratio = ratio
        if viol is None and env.c09_masked:  # type: ignore[attr-defined]
            viol = ({"clause": "parse-within-stack", "phase": "parse", "family": family, "mode": mode,
                     "exc": "RecursionError", "surfaced_as": "swallowed:" + env.c09_masked[0]},  # type: ignore[attr-defined]
                    f"parse of {src[:120]!r} in {mode} exhausted the Python stack and the error was swallowed")
        res.case(nontrivial=[family, ident, mode] if nontrivial else None, outcome=f"parse:{mode}:{label}",
                 sample={"source": src[:100], "mode": mode, "outcome": label, "stream_calls": calls}
                 if (label != "ok" and len(src) > 12) else None)
        if viol is not None:
            res.violation(viol[0], viol[1], case)
            return
        if render_after and tpl is not None:
            self.render_parsed(arm, family, src, mode, tpl, case)

    def render_parsed(self, arm: Any, family: str, src: str, mode: str, tpl: Any, case: dict[str, Any]) -> None:
        """A skeleton that parsed must also render in bounded time (main thread, backstop only)."""
        res = self.res
        label = "?"
        try:
            arm(PARSE_BACKSTOP_S)
            try:
                tpl.render(**GEN.DATA)
                label = "ok"
            except LiquidError as e:
                label = "liquid"
                if caused_by_recursion(e):
                    label = "RecursionError"
            except RecursionError:
                label = "RecursionError"
            except Exception:  # noqa: BLE001
                label = "other"
            finally:
                arm(0)
        except MON.CaseHang:
            arm(0)
            labels, culprit, _, _sig = isolated_parse([(src, mode, case.get("comments", False), True)])
            if culprit is None:
                res.count("backstop_spurious")
                label = "RecursionError" if labels.get(0) == "render:RecursionError" else "ok"
            else:
                label = "hang"
        except MON.StepBudgetExceeded:  # the monitor is off while rendering
            arm(0)
            label = "hang"
        finally:
            arm(0)
        res.case(outcome=f"skeleton-render:{label}")
        if label in ("RecursionError", "hang"):
            res.violation({"clause": "render-terminates" if label == "hang" else "render-within-stack",
                           "phase": "render-skeleton", "family": family, "mode": mode, "exc": label},
                          f"render of parsed skeleton {src[:120]!r} in {mode}: {label}", dict(case, phase="parse+render"))

    def finish(self) -> None:
        # Counter.update() in the runner adds, so maxima are reported as per-shard buckets
        self.res.count("shard_max_stream_calls_without_advance<=" + bucket(self.max_stall))
        self.res.count("shard_max_stream_calls_per_char<=" + bucket(int(self.max_ratio) + 1))
        n = MON.spurious_signals()
        if n:
            self.res.count("sigprof_ignored_outside_armed_window_or_early", n)


def bucket(n: int) -> str:
    b = 1
    while b < n:
        b *= 2
    return str(b)


# ---------------------------------------------------------------------------
# one render case
# ---------------------------------------------------------------------------
def links_label(kinds: tuple[str, ...]) -> str:
    return "+".join(sorted({GEN.SIG_KIND.get(k, k) for k in kinds}))


def run_on_private_loop(coro: Any) -> Any:
    import asyncio

    loop = asyncio.new_event_loop()
    try:
        return loop.run_until_complete(coro)
    finally:
        loop.close()


def run_render_case(templates: dict[str, str], limits: dict[str, int], mode: str, api: str,
                    loader_kind: str = "dict", start: str = "t0",
                    backstop_s: float = RENDER_BACKSTOP_S, fsdir: Optional[str] = None) -> dict[str, Any]:
    """Parse + render t0 on the case thread at a fixed frame depth; classify the outcome."""
    env = get_env(mode, limits, purpose="render")
    loader: Any
    if loader_kind in ("fs", "cachingfs"):
        # real files: a template's ``path`` is then <search path>/<name>, not the name written in the tag
        assert fsdir is not None
        for name, text in templates.items():
            with open(os.path.join(fsdir, name), "w", encoding="utf-8") as fd:
                fd.write(text)
        loader = (MON.CountingFileSystemLoader if loader_kind == "fs" else MON.CountingCachingFileSystemLoader)(fsdir)
    elif loader_kind == "caching":
        loader = MON.CountingCachingLoader(dict(templates))
    else:
        loader = MON.CountingLoader(dict(templates))
    ctx_limit = limits.get("context_depth_limit", 30)
    loader.budget = LOAD_C * (ctx_limit + 10)
    env.loader = loader
    env.c09_masked.clear()  # type: ignore[attr-defined]

    def body() -> dict[str, Any]:
        depth = MON.frame_depth()
        try:
            if api == "sync":
                out = env.get_template(start).render(**GEN.DATA)
            elif loader_kind in ("fs", "cachingfs"):
                # file-system loaders read through run_in_executor: a real (private, per-case) event loop;
                # the start template is loaded through the async API too
                async def go() -> str:
                    t = await env.get_template_async(start)
                    return await t.render_async(**GEN.DATA)

                out = run_on_private_loop(go())
            else:
                out = U.run_coro(env.get_template(start).render_async(**GEN.DATA))
            return {"kind": "ok", "len": len(out), "depth": depth}
        except MON.StepBudgetExceeded as e:
            return {"kind": "budget", "detail": e.detail, "depth": depth}
        except MON.CaseHang:
            return {"kind": "killed", "depth": depth}
        except RecursionError as e:
            return {"kind": "recursion", "site": last_repo_frame(e), "surfaced_as": "RecursionError", "depth": depth,
                    "levels": render_levels(e)}
        except LiquidError as e:
            cls = type(e).__name__
            if caused_by_recursion(e) and cls not in CUTOFF_ERRORS:
                # e.g. LiquidError("unexpected liquid parsing error") from RecursionError: the stack was
                # exhausted and a catch-all wrapped it.  A ContextDepthError / TemplateInheritanceError is
                # the cut-off the statement asks for, whatever raised it.
                return {"kind": "recursion", "site": last_repo_frame(e), "surfaced_as": cls,
                        "depth": depth, "levels": render_levels(e)}
            return {"kind": "liquid", "cls": cls, "depth": depth}
        except Exception as e:  # noqa: BLE001
            return {"kind": "other", "cls": type(e).__name__, "site": last_repo_frame(e), "depth": depth}

    with warnings.catch_warnings():
        warnings.simplefilter("ignore")
        r = MON.run_at_fixed_depth(body, backstop_s)
    if isinstance(r, MON.Hung):
        return {"kind": "hang", "killed": r.killed, "loads": loader.loads}
    if r["depth"] != MON.ENTRY_DEPTH:
        raise RuntimeError(f"C09 harness: case entered at frame depth {r['depth']}, expected {MON.ENTRY_DEPTH}")
    if r["kind"] in ("ok", "liquid") and env.c09_masked:  # type: ignore[attr-defined]
        r = {"kind": "recursion", "site": "?", "surfaced_as": "swallowed:" + env.c09_masked[0],  # type: ignore[attr-defined]
             "depth": r["depth"], "levels": 0}
    r["loads"] = loader.loads
    if r["kind"] == "recursion":
        # Was the recursion still within what context_depth_limit allows when the stack ran out?
        # Every trip round a cycle of n templates costs at least one context extend/copy (an
        # `extends` link renders the parent in the same context), so a cut-off recursion never nests
        # more than (limit + 3) * n template renders.  When the traceback is not available (error
        # swallowed in LAX mode) fall back to the number of template loads.
        n_templates = max(1, len(templates))
        bound = (ctx_limit + 3) * n_templates
        beyond = (r["levels"] or loader.loads) > bound
        r["recursion_depth"] = "beyond-context-depth-limit" if beyond else "within-context-depth-limit"
    return r


def judge_render(res: Result, r: dict[str, Any], sig_base: dict[str, Any], case: dict[str, Any], desc: str) -> str:
    k = r["kind"]
    if k == "ok":
        return "output"
    if k == "liquid":
        return r["cls"]
    if k == "recursion":
        res.violation(dict(sig_base, clause="render-within-stack", exc="RecursionError", surfaced_as=r["surfaced_as"],
                           recursion_depth=r["recursion_depth"]),
                      f"{desc}: Python stack exhausted after {r['levels'] or '?'} nested template renders / {r['loads']} "
                      f"template loads ({r['recursion_depth']}; surfaced as {r['surfaced_as']} at {r.get('site')}) "
                      f"with recursion limit {RECURSION_LIMIT}, entry depth {MON.ENTRY_DEPTH + 1}; allowed: {ALLOWED}",
                      case)
        return "RecursionError" if r["surfaced_as"] == "RecursionError" else "RecursionError(masked)"
    if k == "budget":
        res.violation(dict(sig_base, clause="render-terminates", how="template-loads"),
                      f"{desc}: exceeded the template-load step budget ({r['detail']})", case)
        return "hang:template-loads"
    if k in ("hang", "killed"):
        res.violation(dict(sig_base, clause="render-terminates", how="cpu-limit-isolated-child"),
                      f"{desc}: did not finish within {RENDER_BACKSTOP_S}s of CPU time (loads={r.get('loads')}); "
                      f"{r.get('confirmed')}", case)
        return "hang:cpu-limit"
    # a non-Liquid exception other than RecursionError: terminated, class is C02's business
    res.count("render_non_liquid_exception_terminated(C02 territory)")
    return "other:" + r["cls"]


# ---------------------------------------------------------------------------
# the check
# ---------------------------------------------------------------------------
LOADER_KINDS = ("extends", "include", "render")
LOADER_B = (0, 3, 29)


def loader_family_list() -> list[tuple[str, ...]]:
    return [c for n in (1, 2, 3) for c in GEN.all_cycles(LOADER_KINDS, n)]


def family_list(tier: str) -> list[tuple[str, ...]]:
    core = GEN.LINK_KINDS_CORE
    allk = core + GEN.LINK_KINDS_MORE
    fams: list[tuple[str, ...]] = []
    fams += GEN.all_cycles(allk, 1)
    fams += GEN.all_cycles(allk, 2)
    fams += GEN.all_cycles(core if tier == "quick" else core + ("snippet",), 3)
    return fams


QUICK_B_N3 = (0, 1, 2, 3, 4, 5, 6, 8, 10, 12, 15, 20, 25, 29, 30)  # quick tier, cycles of three templates
TAIL_B = (0, 2, 30)  # block depths at which the cycle is also entered from outside (n <= 2)
CTX3 = {"context_depth_limit": 3}
SMALL_LIMITS = [{"context_depth_limit": 1}, CTX3, {"context_depth_limit": 10}]
VARIANTS = [("strict", "sync"), ("lax", "sync"), ("strict", "async")]


def render_plan(tier: str, kinds: tuple[str, ...], wrapper: str) -> list[tuple[dict[str, int], str, str, str]]:
    """(limits, mode, api, loader) combinations executed for this family and wrapper kind
    ([] = wrapper not in this tier).  loader: "caching" parses every template once, "dict" is the
    plain DictLoader that re-parses a partial on every include/render."""
    n = len(kinds)
    base = [({}, "strict", "sync", "caching")]
    dict_ = [({}, "strict", "sync", "dict")]
    small = [(lim, "strict", "sync", "caching") for lim in SMALL_LIMITS]
    core = all(k in GEN.LINK_KINDS_CORE for k in kinds)
    if tier == "quick":
        if n == 1:
            if wrapper == "if":
                nocache = dict_ + [({}, "lax", "sync", "dict")] if core else []
                return base + nocache + [({}, "strict", "async", "caching")] + small
            if core:
                return base
            return base if wrapper in ("for", "block", "mixed") else []
        if n == 2:
            more = [k for k in kinds if k not in GEN.LINK_KINDS_CORE and k != "snippet"]
            return base if (wrapper == "if" and not more) else []
        return base if wrapper == "mixed" else []
    if n == 1:
        return [({}, m, a, ld) for (m, a) in VARIANTS for ld in ("caching", "dict")] + small
    if n == 2:
        return base + (dict_ if wrapper in ("if", "mixed") else [])
    return base if wrapper in ("if", "for", "block", "mixed") else []


class C09(Check):
    id = "C09"
    level = "exploration"
    title = "Parsing and rendering always terminate within the stack"
    rule = (
        "parse: every malformed source of <=k fragments, every sequence of 1..4 pieces of each block tag's "
        "skeleton alphabet (x text between x trailing text), of lexer-level pieces and of `liquid` lines, b "
        "unterminated nested openers, and (in an isolated child under RLIMIT_CPU) every expression position x "
        "{unterminated quote + 30..60 char tail, 200x repeated fragment}, in STRICT and LAX, each under a token-stream step budget; a parse case is "
        "non-trivial when the source opens at least one tag/output/comment delimiter and (for the tag skeletons) is "
        "unterminated/unbalanced/malformed by the generator's bracket discipline (identity = family, piece indices, mode). render: every cycle of 1..3 templates over the link kinds x wrapper "
        "kind x b in 0..block_nesting_limit x context_depth_limit set x (mode, api), plus non-recursive nesting at "
        "limit-1/limit/limit+1; a render case is non-trivial when the engine followed at least one link or rendered "
        "the nested body (template loads >= 2, or output produced for the nesting family); identity = (kinds, wrapper, "
        "b, limits, mode, api)."
    )
    assumptions = [
        "sys.getrecursionlimit() == 1000 (CPython default); every render case enters the library at Python frame "
        "depth 6 (thread bootstrap 3 frames + 2 harness frames + BoundTemplate.render) in a fresh thread, so the "
        "verdict does not depend on the runner's own stack depth; a real caller is never shallower",
        "termination of parsing is decided by a step budget on TokenStream.next/next_token/__next__/current/peek: "
        f"<= {MON.STALL_LIMIT} consecutive calls without the position advancing and <= {MON.TOTAL_C}*(chars+1)^2+{MON.TOTAL_FLOOR} calls in "
        "total; termination of rendering by a template-load budget of 20*(context_depth_limit+10); CPU-time alarms "
        "(5 s parse, 20 s render; ITIMER_PROF / process_time, so machine load cannot fire them) are backstops only and were never needed on the unchanged tree",
        "a C-level regular-expression match cannot be interrupted by a Python signal handler: the regex/lexer blow-up "
        "family (E) therefore runs in a forked child under a kernel CPU limit (RLIMIT_CPU 20 s; the child announces each "
        "source before parsing it; > 5 s of CPU for one parse is also reported); the other families contain no quote "
        "or run longer than a few characters, so they cannot reach such a blow-up without E reaching it too",
        "a CPU-backstop firing is never a verdict: the case is re-run alone in a forked child under RLIMIT_CPU and "
        "reported only if the kernel kills that child; otherwise it is counted as backstop_spurious",
        "templates are served by a non-caching DictLoader (every include/render re-parses the partial, as for a user "
        "of DictLoader); loop wrappers iterate over a one-element list",
        "non-Liquid exceptions other than RecursionError terminate and are C02's concern; they are counted, not judged",
    ]

    def bounds(self, tier: str) -> dict[str, Any]:
        q = tier == "quick"
        return {
            "malformed_k": 4 if q else 5,
            "tag_skeleton_len": "1..4 pieces x trailing text {no,yes} x text between tags {no,yes}"
                                + (" (text between only for <=3 pieces)" if q else ""),
            "tags": list(GEN.BLOCK_TAGS),
            "lexer_piece_len": 3 if q else 4,
            "liquid_lines": 3 if q else 4,
            "blowup_family": f"{len(GEN.POSITIONS)} expression positions x (unterminated quote {{',\"}} x 4 tail kinds x tail "
                             f"lengths {list(GEN.TAIL_LENGTHS)} + {len(GEN.RUN_FRAGMENTS)} fragments repeated {GEN.RUN_LENGTH}x), "
                             f"in a forked child under RLIMIT_CPU={MON.ISOLATED_CPU_S}s",
            "modes": ["strict", "lax"],
            "families": len(family_list(tier)),
            "cycle_len": "1..3 (n=1 over all 7 link kinds, n=2 over include/render/extends/call/snippet, n=3 over "
                         "include/render/extends/call)" if q
            else "1..3 (n<=2 over all 7 link kinds, n=3 over include/render/extends/call/snippet)",
            "wrappers": "n=1: all 8 for include/render/extends/call, if/for/block/mixed for the other kinds; n=2: if; "
                        "n=3: mixed" if q
            else "n<=2: all 8; n=3: if, for, block, mixed",
            "block_depth_b": "every b in 0..30 (= default block_nesting_limit) for cycles of 1 and 2 templates; "
                             f"b in {list(QUICK_B_N3)} for cycles of 3" if q
            else "every b in 0..30 (= default block_nesting_limit)",
            "context_depth_limit": "30 (default); also 1,3,10 for n=1 with the if wrapper" if q
            else "30 (default); also 1,3,10 for n=1",
            "mode_api": "strict/sync (+ strict/async for n=1 with the if wrapper, lax/sync for the core kinds)" if q
            else "strict/sync, lax/sync, strict/async for n=1; strict/sync for n>=2",
            "loader": "caching loader everywhere; non-caching DictLoader additionally for n=1 over include/render/extends/call "
                      "with the if wrapper" if q
            else "caching loader everywhere; non-caching DictLoader additionally for n=1 and for n=2 with if/mixed wrappers",
            "entry_from_outside_the_cycle": "n<=2, b in {0,2,30}, sync+async" + (", if wrapper" if q else ", all wrappers"),
            "loader_families": f"cycles of 1..3 over {list(LOADER_KINDS)} ({len(loader_family_list())} families) x "
                               + ("if wrapper x b in " + str(list(LOADER_B)) + " (n=3: first and last)" if q else
                                  "if/mixed wrappers x every b in 0..30 (n=3: b in " + str(list(LOADER_B)) + ")")
                               + " x {FileSystemLoader, CachingFileSystemLoader on a temp dir, names spelled './x' with "
                                 "DictLoader and FileSystemLoader} x {sync, async}; n<=2 also entered from outside the cycle",
            "recursion_limit": RECURSION_LIMIT,
            "entry_frame_depth": MON.ENTRY_DEPTH + 1,
        }

    # ------------------------------------------------------------------
    def shards(self, tier: str) -> list[Any]:
        q = tier == "quick"
        sh: list[Any] = []
        k = 4 if q else 5
        for f0 in range(len(G.FRAGMENTS)):
            if q:
                sh.append(("M", k, f0, None))
            else:
                for f1 in range(-1, len(G.FRAGMENTS)):
                    if f1 % 4 == 3 or f1 == -1:
                        sh.append(("M", k, f0, f1))
        for tag in GEN.BLOCK_TAGS:
            for first in range(len(GEN.tag_alphabet(tag))):
                sh.append(("S", tag, first))
        for first in range(len(GEN.LEX_PIECES)):
            sh.append(("X", 3 if q else 4, first))
        for first in range(len(GEN.LIQUID_LINES)):
            sh.append(("Q", 3 if q else 4, first))
        for w in GEN.WRAPPER_KINDS:
            sh.append(("N", w))
        for g in range(0, len(GEN.POSITIONS), E_POSITIONS_PER_SHARD):
            sh.append(("E", g))
        for kinds in family_list(tier):
            if q and len(kinds) > 1:
                sh.append(("R", kinds, None))
            else:
                for w in GEN.WRAPPER_KINDS:
                    sh.append(("R", kinds, w))
        for kinds in loader_family_list():
            sh.append(("RL", kinds))
        sh.append(("R1",))
        for w in GEN.WRAPPER_KINDS:
            sh.append(("D", w))
        return sh

    def run_shard(self, shard: Any, tier: str) -> Result:
        res = Result()
        kind = shard[0]
        if kind in ("M", "S", "X", "Q", "N"):
            pr = ParseRunner(res)
            with MON.case_alarm() as arm:
                if kind == "M":
                    self.run_malformed(pr, arm, shard[1], shard[2], shard[3])
                elif kind == "S":
                    self.run_skeletons(pr, arm, shard[1], shard[2], tier)
                elif kind == "X":
                    self.run_lex(pr, arm, shard[1], shard[2])
                elif kind == "Q":
                    self.run_liquid(pr, arm, shard[1], shard[2])
                else:
                    self.run_unterminated_nesting(pr, arm, shard[1])
            pr.finish()
        elif kind == "E":
            for pos in range(shard[1], min(shard[1] + E_POSITIONS_PER_SHARD, len(GEN.POSITIONS))):
                if not self.run_blowup(res, pos):
                    # a confirmed hang costs ISOLATED_CPU_S of CPU; the shard already fails
                    res.count("blowup_positions_skipped_after_a_confirmed_hang",
                              min(shard[1] + E_POSITIONS_PER_SHARD, len(GEN.POSITIONS)) - pos - 1)
                    break
        elif kind == "R":
            MON.uninstall_stream_monitor()
            self.run_family(res, tier, tuple(shard[1]), shard[2])
        elif kind == "RL":
            MON.uninstall_stream_monitor()
            self.run_loader_family(res, tier, tuple(shard[1]))
        elif kind == "R1":
            MON.uninstall_stream_monitor()
            self.run_selfcall(res, tier)
        else:
            MON.uninstall_stream_monitor()
            self.run_deep(res, tier, shard[1])
        return res

    # -- parse families --------------------------------------------------
    @staticmethod
    def malformed_sources(k: int, f0: int, f1: Optional[int]) -> Iterator[str]:
        """malformed(k) restricted to first fragment f0 (and, thorough, to a group of second fragments)."""
        fr = G.FRAGMENTS
        first = fr[f0]
        if f1 is None or f1 == -1:
            yield first
        if f1 is None:
            for n in range(1, k):
                for combo in itertools.product(fr, repeat=n):
                    yield first + " " + " ".join(combo)
            return
        if f1 == -1:
            return
        for s in range(f1 - 3, f1 + 1):
            second = fr[s]
            yield first + " " + second
            for n in range(1, k - 1):
                for combo in itertools.product(fr, repeat=n):
                    yield first + " " + second + " " + " ".join(combo)

    def run_malformed(self, pr: ParseRunner, arm: Any, k: int, f0: int, f1: Optional[int]) -> None:
        for src in self.malformed_sources(k, f0, f1):
            markup = "{%" in src or "{{" in src
            for mode in ("strict", "lax"):
                pr.one(arm, "M", src, src, mode, nontrivial=markup)

    def run_skeletons(self, pr: ParseRunner, arm: Any, tag: str, first: int, tier: str) -> None:
        fam = "S:" + tag
        for ident, src, unb in GEN.skeletons(tag, 4, first, joiner_max_len=3 if tier == "quick" else 4):
            for mode in ("strict", "lax"):
                pr.one(arm, fam, ident, src, mode, nontrivial=unb, render_after=True)

    def run_lex(self, pr: ParseRunner, arm: Any, n: int, first: int) -> None:
        for ident, src, _ in GEN.lex_skeletons(n, first):
            markup = "{%" in src or "{{" in src or "{#" in src
            for mode in ("strict", "lax"):
                pr.one(arm, "X", ident, src, mode, comments=False, nontrivial=markup)
                pr.one(arm, "Xc", ident, src, mode, comments=True, nontrivial=markup)

    def run_liquid(self, pr: ParseRunner, arm: Any, n: int, first: int) -> None:
        for ident, src, _ in GEN.liquid_skeletons(n, first):
            for mode in ("strict", "lax"):
                pr.one(arm, "Q", ident, src, mode, render_after=True)

    def run_unterminated_nesting(self, pr: ParseRunner, arm: Any, w: str) -> None:
        for b in (1, 2, 5, 29, 30, 31, 32):
            for inner in ("", "y", "{% if %}", "{% case x %}", "{% liquid if x\n%}"):
                src = GEN.unterminated(w, b, inner)
                for mode in ("strict", "lax"):
                    pr.one(arm, "N:" + w, [b, inner], src, mode)

    def run_blowup(self, res: Result, position: int) -> bool:
        """Regex / lexer blow-up shapes.  A C-level regular-expression match cannot be interrupted by a
        Python signal handler, so these sources are parsed in a forked child whose CPU time the kernel
        caps (RLIMIT_CPU); the child announces each source before it parses it."""
        pname = GEN.POSITIONS[position][0]
        srcs = GEN.blowup_sources(position)
        items = [(src, mode, False, False) for _, src in srcs for mode in ("strict", "lax")]
        idents = [(ident, mode) for ident, _ in srcs for mode in ("strict", "lax")]
        start = 0
        retried: set[int] = set()
        while start < len(items):
            labels, culprit, own_cpu, sig = isolated_parse(items[start:])
            for k, label in sorted(labels.items()):
                i = start + k
                ident, mode = idents[i]
                src = items[i][0]
                res.case(nontrivial=["E", ident, mode], outcome=f"parse:{mode}:{label}",
                         sample={"source": src[:100], "mode": mode, "outcome": label} if k % 97 == 5 else None)
                if label.startswith("RecursionError") or label.startswith("hang:"):
                    clause = "parse-terminates" if label.startswith("hang:") else "parse-within-stack"
                    res.violation({"clause": clause, "phase": "parse", "family": "E", "mode": mode, "position": pname,
                                   "shape": ident[1] + ":" + str(ident[2]), "outcome": label.split("(")[0].split(":")[0]},
                                  f"parse of {src[:120]!r} ({len(src)} chars) in {mode}: {label}",
                                  {"phase": "parse", "family": "E", "mode": mode, "source": src, "comments": False})
            if culprit is None:
                break
            i = start + culprit
            ident, mode = idents[i]
            src = items[i][0]
            if own_cpu < MON.ISOLATED_CPU_S / 2 and i not in retried:
                # the limit was reached by the batch as a whole: give this source a child of its own
                retried.add(i)
                res.count("isolated_child_cpu_limit_reached_cumulatively_retry")
                start = i
                continue
            res.case(nontrivial=["E", ident, mode], outcome=f"parse:{mode}:hang:cpu-limit")
            res.violation({"clause": "parse-terminates", "phase": "parse", "family": "E", "mode": mode,
                           "how": "cpu-limit-isolated-child", "position": pname, "shape": ident[1] + ":" + str(ident[2])},
                          f"parse-hang (CPU limit in isolated child): parse of {src[:120]!r} ({len(src)} chars) in {mode} "
                          f"was still running after {own_cpu:.0f}s of CPU when the kernel killed the child "
                          f"(RLIMIT_CPU={MON.ISOLATED_CPU_S}s, signal {sig})",
                          {"phase": "parse", "family": "E", "mode": mode, "source": src, "comments": False})
            # every further hang costs ISOLATED_CPU_S of CPU and the shard already fails
            res.count("blowup_sources_skipped_after_a_confirmed_hang", len(items) - i - 1)
            return False
        return True

    # -- render families -------------------------------------------------
    def run_family(self, res: Result, tier: str, kinds: tuple[str, ...], only_wrapper: Optional[str]) -> None:
        links = links_label(kinds)
        wrappers = GEN.WRAPPER_KINDS if only_wrapper is None else (only_wrapper,)
        for w in wrappers:
            plan = render_plan(tier, kinds, w)
            if not plan:
                continue
            for b in range(0, 31):
                if tier == "quick" and len(kinds) == 3 and b not in QUICK_B_N3:
                    continue
                templates = GEN.family_templates(kinds, w, b)
                for limits, mode, api, ld in plan:
                    self.one_render(res, "R", kinds, links, w, b, templates, limits, mode, api, ld)
                if b in TAIL_B and len(kinds) <= 2 and (w == "if" or tier != "quick"):
                    # the cycle entered from a template that is not part of it
                    tailed = GEN.family_templates(kinds, w, b, tail=True)
                    for api in ("sync", "async"):
                        self.one_render(res, "R", kinds, links, w, b, tailed, {}, "strict", api, "caching", start="e")

    def run_loader_family(self, res: Result, tier: str, kinds: tuple[str, ...]) -> None:
        """The recursive cycles again, over loaders whose template ``path`` / name spelling differs from
        the name written in the tag: FileSystemLoader and CachingFileSystemLoader on a per-shard temp
        directory, and a DictLoader whose names are spelled './x'.  Sync and async; also entered from a
        template outside the cycle (n <= 2)."""
        links = links_label(kinds)
        q = tier == "quick"
        depths = (LOADER_B[0], LOADER_B[-1]) if (q and len(kinds) == 3) else (
            LOADER_B if (q or len(kinds) == 3) else tuple(range(0, 31)))
        wrappers = ("if",) if q else ("if", "mixed")
        fsdir = tempfile.mkdtemp(prefix="c09_fs_")
        # the async render of an extends chain over a caching file-system loader leaves an un-awaited
        # `uptodate` coroutine behind (and reports a LiquidError): C01's concern, not noise for this log
        warnings.filterwarnings("ignore", category=RuntimeWarning, message="coroutine .* was never awaited")
        old_hook = sys.unraisablehook

        def quiet_hook(unraisable: Any) -> None:
            # CPython fails to even issue that warning when the coroutine is collected while a namedtuple
            # constructor (restricted builtins) is the running frame: "KeyError: '__import__'".  Log noise only.
            if type(unraisable.object).__name__ == "coroutine" and unraisable.exc_type is KeyError:
                res.count("unawaited_coroutine_warning_noise_dropped")
                return
            old_hook(unraisable)

        sys.unraisablehook = quiet_hook
        try:
            for w in wrappers:
                for b in depths:
                    variants = [(False, GEN.family_templates(kinds, w, b), "", ("fs", "cachingfs"))]
                    variants.append((False, GEN.family_templates(kinds, w, b, prefix="./"), "./", ("dict", "fs")))
                    if len(kinds) <= 2:
                        variants.append((True, GEN.family_templates(kinds, w, b, tail=True), "", ("fs", "cachingfs")))
                        variants.append((True, GEN.family_templates(kinds, w, b, tail=True, prefix="./"), "./", ("dict",)))
                    for tail, templates, prefix, loaders in variants:
                        start = prefix + ("e" if tail else "t0")
                        for ld in loaders:
                            for api in ("sync", "async"):
                                self.one_render(res, "RL", kinds, links, w, b, templates, {}, "strict", api, ld,
                                                start=start, fsdir=fsdir)
        finally:
            sys.unraisablehook = old_hook
            shutil.rmtree(fsdir, ignore_errors=True)

    def run_selfcall(self, res: Result, tier: str) -> None:
        for w in GEN.WRAPPER_KINDS:
            for b in range(0, 31):
                templates = GEN.selfcall_templates(w, b)
                for mode, api in (("strict", "sync"), ("lax", "sync"), ("strict", "async")):
                    self.one_render(res, "R1", ("selfcall",), "selfcall", w, b, templates, {}, mode, api, "dict")

    def run_deep(self, res: Result, tier: str, w: str) -> None:
        for lim in ({}, {"block_nesting_limit": 5}, {"block_nesting_limit": 12}):
            n = lim.get("block_nesting_limit", 30)
            for b in (n - 1, n, n + 1):
                for holder in ("top", "include", "render", "macro"):
                    inner = GEN.wrap(w, b, "y", "w0")
                    if holder == "top":
                        templates = {"t0": inner}
                    elif holder == "macro":
                        templates = {"t0": "{% macro m %}" + GEN.wrap(w, b - 1, "y", "w0") + "{% endmacro %}{% call m %}"}
                    else:
                        templates = {"t0": "{% " + holder + " 't1' %}", "t1": inner}
                    for mode, api in (("strict", "sync"), ("lax", "sync"), ("strict", "async")):
                        self.one_render(res, "D", (holder,), "nesting:" + holder, w, b, templates, lim, mode, api, "dict")

    def one_render(self, res: Result, fam: str, kinds: tuple[str, ...], links: str, w: str, b: int,
                   templates: dict[str, str], limits: dict[str, int], mode: str, api: str, ld: str,
                   start: str = "t0", fsdir: Optional[str] = None) -> None:
        case = {"phase": "render", "family": fam, "kinds": list(kinds), "wrapper": w, "b": b, "templates": templates,
                "limits": limits, "mode": mode, "api": api, "loader": ld, "start": start}
        if (res.counters.get("render_cases_hit_cpu_backstop", 0) >= MAX_BACKSTOP_HANGS_PER_SHARD
                or res.counters.get("render_cases_over_load_budget", 0) >= MAX_BUDGET_HANGS_PER_SHARD):
            # every further hang costs RENDER_BACKSTOP_S of CPU; the shard already fails
            res.count("render_cases_skipped_after_repeated_hangs")
            return
        r = run_render_case(templates, limits, mode, api, ld, start, fsdir=fsdir)
        if r["kind"] == "budget":
            res.count("render_cases_over_load_budget")
        if r["kind"] in ("hang", "killed"):
            # only a suspicion: re-run this one case alone in a forked child under a kernel CPU limit
            out, sig = MON.run_isolated(
                lambda emit: emit(run_render_case(templates, limits, mode, api, ld, start, backstop_s=1e9, fsdir=fsdir)))
            if sig is None and out and out[-1].get("kind") not in ("hang", "killed"):
                res.count("backstop_spurious")
                r = out[-1]
            else:
                res.count("render_cases_hit_cpu_backstop")
                r["confirmed"] = f"killed by RLIMIT_CPU={MON.ISOLATED_CPU_S}s (signal {sig}) when re-run alone in a forked child"
        desc = (f"render[{api},{mode},{ld} loader] of {start} in {{{', '.join(f'{k}: {v[:70]!r}' for k, v in templates.items())}}} "
                f"(links {links}, {b} nested {w} blocks, limits {limits or 'default'})")
        sig = {"phase": "render", "family": fam, "links": links, "wrapper": w}
        if fam == "RL":
            sig["loader"] = ld
        label = judge_render(res, r, sig, case, desc)
        nontrivial = r.get("loads", 0) >= 2 or (fam == "D" and label == "output")
        res.case(nontrivial=[fam, kinds, w, b, limits, mode, api, ld, start] if nontrivial else None,
                 outcome=f"render:{fam}:{label}",
                 sample={start: templates[start][:100], "outcome": label, "loads": r.get("loads")}
                 if (b in (3, 17) and label != "output") else None)
        res.count("template_loads<=" + bucket(r.get("loads", 0)))

    # ------------------------------------------------------------------
    def replay(self, case: Any) -> list[dict[str, Any]]:
        res = Result()
        if case["phase"].startswith("parse") and case.get("family") == "E":
            labels, culprit, own_cpu, sig = isolated_parse([(case["source"], case["mode"], False, False)])
            label = labels.get(0, "hang:cpu-limit")
            if culprit is not None or label.startswith("RecursionError") or label.startswith("hang:"):
                res.violation({"clause": "parse-terminates" if "hang" in label else "parse-within-stack", "phase": "parse",
                               "family": "E", "mode": case["mode"]},
                              f"parse of {case['source'][:120]!r} in {case['mode']}: {label} "
                              f"(isolated child, RLIMIT_CPU={MON.ISOLATED_CPU_S}s, signal {sig})", case)
        elif case["phase"].startswith("parse"):
            pr = ParseRunner(res)
            with MON.case_alarm() as arm:
                pr.one(arm, case["family"], "replay", case["source"], case["mode"], comments=case.get("comments", False),
                       render_after=case["phase"] == "parse+render")
        else:
            MON.uninstall_stream_monitor()
            kinds = tuple(case["kinds"])
            links = case.get("links") or (links_label(kinds) if case["family"] in ("R", "RL") else
                                           ("selfcall" if case["family"] == "R1" else "nesting:" + kinds[0]))
            fsdir = tempfile.mkdtemp(prefix="c09_fs_") if case.get("loader") in ("fs", "cachingfs") else None
            try:
                self.one_render(res, case["family"], kinds, links, case["wrapper"], case["b"], case["templates"],
                                case["limits"], case["mode"], case["api"], case.get("loader", "dict"),
                                case.get("start", "t0"), fsdir=fsdir)
            finally:
                if fsdir:
                    shutil.rmtree(fsdir, ignore_errors=True)
        return res.violations


CHECK = C09()
