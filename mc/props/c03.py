"""C03 — lax and warn modes suppress errors without changing correct output.

Bounded exhaustive enumeration on the real engine, differential oracle STRICT vs WARN vs LAX:
  M   malformed sources M(k): every sequence of <= k fragments (mc.gen.programs.FRAGMENTS);
  T   every sequence of <= k whole tags (orphans, unbalanced / mis-nested blocks, unknown tags,
      malformed partials, malformed ``liquid`` lines); TX the same over the inheritance / macro /
      with / translate tags of the extra environment;
  Td/TXd/Id  tag sequences of <= k-1 tags with literal text before / between / after the tags in every
      combination (e.g. an unclosed block followed by text that runs to the last character);
  K   error-class corpus: snippets raising every LiquidError subclass reachable from a template (parse time,
      partial-load time, render time; default / extra / small-limits / StrictUndefined environments), alone,
      in ordered pairs, inside block wrappers and through render/include;
  (T, TX, I, Td, TXd, Id, K are parsed and rendered a second time on the same environments.)
  I   the T sources of <= k-1 tags through the module-level ``liquid.Template(source, tolerance=...)``;
  E   every expression head x every sequence of <= k expression tokens;
  G   the generated well-formed programs;   Gm  every single-deviation mutant of them.
Each source is first given to the environment's template lexer alone; sources it rejects are
outside the property's precondition: skipped and counted.  Every other source is parsed and
rendered (a few data sets) in the three modes; see mc/ref/c03_oracle.py for the clauses.
"""

from __future__ import annotations

import itertools
import warnings
from typing import Any
from typing import Iterator

import liquid
from mc import util as U
from mc.core import Check
from mc.core import Result
from mc.gen import programs as G
from mc.ref import c03_gen as CG
from mc.ref import c03_oracle as O

X_FLAGS = {
    "logical_not_operator": True, "logical_parentheses": True, "ternary_expressions": True,
    "shorthand_indexes": True, "keyword_assignment": True,
}
MODES = ("strict", "warn", "lax")
DATA = dict(G.DATA_SETS)
DATA["K"] = CG.K_DATA
FAMILY_DATA = {
    "M": ("D0", "D1", "D2"),
    "T": ("D0", "D1", "D2"),
    "TX": ("D0", "D2"),
    "I": ("D0", "D2"),
    "Td": ("D0", "D1", "D2"),
    "TXd": ("D0", "D2"),
    "Id": ("D0", "D2"),
    "K": ("K",),
    "E": ("D0", "D1", "D2", "D4"),
    "G": ("D0", "D1", "D2", "D3", "D4", "D5"),
    "Gm": ("D0", "D1", "D2", "D3", "D4", "D5"),  # thorough; quick uses GM_QUICK_DATA
    "Gm3": ("D0",),  # mutants of the n=3 programs (thorough only)
}

GM_QUICK_DATA = ("D0", "D2", "D4")
M_QUICK_DATA = ("D0", "D2")
REPEAT_FAMILIES = {"T", "TX", "I", "Td", "TXd", "Id", "K"}  # parsed and rendered a second time on the same envs

_ENVS: dict[tuple[str, str], Any] = {}


class ImplicitEnv:
    """Route I: the module-level ``liquid.Template(source, tolerance=...)`` factory (implicit environment)."""

    def __init__(self, mode: str):
        self.tolerance = U.MODES[mode]

    def tokenizer(self) -> Any:
        return liquid.Environment().tokenizer()

    def from_string(self, source: str) -> Any:
        return liquid.Template(source, tolerance=self.tolerance)


def env_for(kind: str, mode: str) -> Any:
    """D = default configuration; X = extra tags/filters and the optional syntax flags on;
    I = implicit environment made by liquid.Template (no loader)."""
    env = _ENVS.get((kind, mode))
    if env is None:
        if kind == "I":
            env = ImplicitEnv(mode)
        elif kind == "L":
            env = U.make_env(limits=CG.K_LIMITS, templates=CG.PARTIALS, tolerance=U.MODES[mode])
        elif kind == "S":
            env = U.make_env(templates=CG.PARTIALS, tolerance=U.MODES[mode], undefined=liquid.StrictUndefined)
        elif kind == "D":
            env = U.make_env(templates=CG.PARTIALS, tolerance=U.MODES[mode])
        else:
            env = U.make_env(flags=X_FLAGS, templates=CG.PARTIALS, extra=True, tolerance=U.MODES[mode])
        _ENVS[(kind, mode)] = env
    return env


_READY = False


def ready() -> None:
    global _READY
    if not _READY:
        O.install_sinks()
        for kind in ("D", "X"):
            O.selfcheck_sinks(env_for(kind, "lax"), env_for(kind, "warn"))
        _READY = True


def bucket(n: int) -> str:
    return str(n) if n < 3 else "3+"


class C03(Check):
    id = "C03"
    level = "exploration"
    rule = (
        "Every source of the complete families (M: <=k fragments; T/TX/I: <=k whole tags; Td/TXd/Id: <=k-1 tags x every placement of literal text; E: each expression head x "
        "<=k expression tokens; G: generated programs; Gm: every single-deviation mutant of each program) that the "
        "template lexer accepts is parsed and rendered under STRICT, WARN and LAX with each data set of the family. "
        "A case (env, source, data) is non-trivial when a mode mattered: lax mode suppressed >= 1 error (clauses 1-3 "
        "exercised) or strict mode raised, or the source is strict-clean and has at least one tag/output token "
        "(clause 4 exercised on real markup); content-only sources are trivial."
    )
    assumptions = [
        "default Undefined (undefined variables are not errors) and default resource limits: errors of class "
        "ResourceLimitError / UndefinedError are not tolerance matters per docs/environment.md (syntax and "
        "render-time type errors) and are excluded and counted (none occurs inside the bound)",
        "non-Liquid exceptions belong to C02 (counted, not flagged) when strict mode raises one too or when lax and "
        "warn raise the same one; a non-Liquid exception in exactly one of warn / lax is a C03 violation "
        "(warn must behave the same as lax)",
        "error-class corpus K reaches every LiquidError subclass the engine raises while parsing, loading partials or "
        "rendering (counters K_strict_raises:*); not reachable from a template and therefore not in the corpus: "
        "LiquidEnvironmentError, TemplateTraversalError (static analysis), TranslationError/TranslationValueError/"
        "TranslationKeyError (no raise site), FilterItemTypeError (always caught by sequence_filter)",
        "configurations: D (default Environment), X (extra=True, not/parentheses/ternary/shorthand-index/"
        "keyword-assignment flags on) and I (implicit environment of liquid.Template), each in the three modes; "
        "render data limited to mc.gen.programs.DATA_SETS",
        "clause 3 counts calls to the public sinks Environment.error / RenderContext.error in LAX; a strict-mode "
        "error raised by a check that does not fire outside strict mode (no sink reached in LAX, no warning in "
        "WARN) is counted as unspecified_excluded, not flagged",
    ]

    def bounds(self, tier: str) -> dict[str, Any]:
        q = tier == "quick"
        return {
            "malformed_k": 4 if q else 5,
            "malformed_envs": "D (k) and X (k-1)",
            "tag_sequence_k": 3 if q else 4,
            "tag_alphabet": len(CG.TAGS_QUICK if q else CG.TAGS),
            "implicit_env_tag_sequence_k": 2 if q else 3,
            "text_decorated_tag_sequence_k": {"Td": 2 if q else 3, "TXd": 2 if q else 3, "Id": 2},
            "tag_alphabet_extra_env": len(CG.TAGS_X_QUICK if q else CG.TAGS_X),
            "error_class_corpus_K": "each env kind (D, X, L=small limits, S=StrictUndefined): snippets x wrappers, "
                                    "singles + ordered pairs + via render/include of a partial; 2 rounds",
            "repeat_round_families": sorted(REPEAT_FAMILIES),
            "expr_k": 2 if q else 3,
            "expr_alphabet": len(CG.ETOKENS_QUICK if q else CG.ETOKENS),
            "expr_heads": len(CG.HEADS),
            "programs": "n<=2 full menu (env D) + n<=2 extra menu (env X), all mutants" if q else
                        "n<=2 full menu (D) + n<=2 extra menu (X) + n=3 core menu depth<=2 (D), all mutants "
                        "(mutants of n=3 programs with data set D0 only)",
            "data_sets": {k: list(GM_QUICK_DATA if (q and k == "Gm") else M_QUICK_DATA if (q and k == "M") else v)
                          for k, v in FAMILY_DATA.items()
                          if not (q and k == "Gm3")},
        }

    # ------------------------------------------------------------------
    def shards(self, tier: str) -> list[Any]:
        q = tier == "quick"
        sh: list[Any] = []
        k = 4 if q else 5
        nfr = len(G.FRAGMENTS)
        if q:
            for f0 in range(nfr):
                sh.append(("M", "D", k, (f0,)))
        else:
            for f0 in range(nfr):
                for f1 in range(nfr):
                    sh.append(("M", "D", k, (f0, f1)))
        for f0 in range(nfr):
            sh.append(("M", "X", k - 1, (f0,)))
        tags = CG.TAGS_QUICK if q else CG.TAGS
        for i in range(len(tags)):
            sh.append(("T", 3 if q else 4, i))
        for i in range(len(tags)):
            sh.append(("I", 2 if q else 3, i))
        tags_x = CG.TAGS_X_QUICK if q else CG.TAGS_X
        for i in range(len(tags_x)):
            sh.append(("TX", 3 if q else 4, i))
        kd = 2 if q else 3
        for i in range(len(tags)):
            sh.append(("Td", "D", kd, i))
        for i in range(len(tags_x)):
            sh.append(("TXd", "X", kd, i))
        for i in range(len(tags)):
            sh.append(("Id", "I", 2, i))
        for ek in CG.K_SNIPPETS:
            sh.append(("K", ek))
        for i in range(len(CG.HEADS)):
            if q:
                sh.append(("E", 2, i, None))
            else:
                for t0 in range(len(CG.ETOKENS)):
                    sh.append(("E", 3, i, t0))
        nprog = 48 if q else 512
        for i in range(nprog):
            sh.append(("G", i, nprog))
        return sh

    def run_shard(self, shard: Any, tier: str) -> Result:
        ready()
        res = Result()
        kind = shard[0]
        if kind == "M":
            _, ek, k, prefix = shard
            for src in malformed_sources(k, prefix):
                self.run_source(res, "M", ek, src, labels=M_QUICK_DATA if tier == "quick" else None)
        elif kind == "T":
            _, k, first = shard
            tags = CG.TAGS_QUICK if tier == "quick" else CG.TAGS
            for src in CG.tag_sequences(k, tags, first):
                self.run_source(res, "T", "D", src)
        elif kind == "I":
            _, k, first = shard
            tags = CG.TAGS_QUICK if tier == "quick" else CG.TAGS
            for src in CG.tag_sequences(k, tags, first):
                self.run_source(res, "I", "I", src)
        elif kind in ("Td", "TXd", "Id"):
            _, ek, k, first = shard
            if ek == "X":
                tags = CG.TAGS_X_QUICK if tier == "quick" else CG.TAGS_X
            else:
                tags = CG.TAGS_QUICK if tier == "quick" else CG.TAGS
            for src in CG.decorated_sequences(k, tags, first):
                self.run_source(res, kind, ek, src)
        elif kind == "K":
            for src in CG.k_sources(shard[1]):
                self.run_source(res, "K", shard[1], src)
            self.class_coverage(res, shard[1])
        elif kind == "TX":
            _, k, first = shard
            tags = CG.TAGS_X_QUICK if tier == "quick" else CG.TAGS_X
            for src in CG.tag_sequences(k, tags, first):
                self.run_source(res, "TX", "X", src)
        elif kind == "E":
            _, k, hi, t0 = shard
            ek, head = CG.HEADS[hi]
            toks = CG.ETOKENS_QUICK if tier == "quick" else CG.ETOKENS
            if t0 is None:
                it: Iterator[tuple[str, str]] = CG.expression_sources(head, k, toks)
            else:
                it = expr_sources_prefixed(head, k, toks, t0)
            for _e, src in it:
                self.run_source(res, "E", ek, src)
        else:
            _, i, n = shard
            for j, (ek, prog) in enumerate(program_corpus(tier)):
                if j % n != i:
                    continue
                self.run_source(res, "G", ek, prog.source)
                fam = "Gm3" if prog.size >= 3 else "Gm"
                seen = {prog.source}
                for _mk, msrc in G.token_mutants(prog.source):
                    if msrc in seen:
                        res.count("duplicate_mutant_skipped")
                        continue
                    seen.add(msrc)
                    self.run_source(res, fam, ek, msrc,
                                    labels=GM_QUICK_DATA if tier == "quick" else None)
        return res

    # ------------------------------------------------------------------
    def run_source(self, res: Result, family: str, ek: str, src: str, labels: Any = None) -> None:
        envs = {m: env_for(ek, m) for m in MODES}
        acc = O.lexer_accepts(envs["lax"], src)
        if acc != "yes":
            if acc == "no":
                res.count("lexer_rejected_skipped")
                res.case(outcome=f"{family}:lexer-rejects")
            else:
                res.count("non_liquid_exception_c02_business")
                res.case(outcome=f"{family}:lexer:{acc}")
            return
        labels = labels or FAMILY_DATA[family]
        with warnings.catch_warnings(record=True) as wl:
            warnings.simplefilter("always")
            parsed = {m: O.observe_parse(envs[m], src, wl) for m in MODES}
            for lab in labels:
                data = DATA[lab]
                obs: dict[str, O.Obs] = {}
                for m in MODES:
                    ph, tpl = parsed[m]
                    if ph.status == "ok":
                        rph, out = O.observe_render(tpl, data, wl)
                        obs[m] = O.Obs(ph, rph, out if rph.status == "ok" else None)
                    else:
                        obs[m] = O.Obs(ph, O.SKIPPED, None)
                del wl[:]
                self.judge_case(res, family, ek, src, lab, obs)
            if family in REPEAT_FAMILIES:
                # the same environments meet the same source again: every occurrence of a suppressed error
                # must be reported ("each suppressed error is reported as a warning"), not only the first
                parsed2 = {"strict": parsed["strict"]}
                for m in ("warn", "lax"):
                    parsed2[m] = O.observe_parse(envs[m], src, wl)
                lab = labels[0]
                obs = {}
                for m in MODES:
                    ph, tpl = parsed2[m]
                    if ph.status == "ok":
                        rph, out = O.observe_render(tpl, DATA[lab], wl)
                        obs[m] = O.Obs(ph, rph, out if rph.status == "ok" else None)
                    else:
                        obs[m] = O.Obs(ph, O.SKIPPED, None)
                del wl[:]
                self.judge_case(res, family, ek, src, lab, obs, round_=2)

    def judge_case(self, res: Result, family: str, ek: str, src: str, lab: str, obs: dict[str, O.Obs],
                   round_: int = 1) -> None:
        s, w, l = obs["strict"], obs["warn"], obs["lax"]
        viols = O.judge(s, w, l, res.count)
        markup = "{%" in src or "{{" in src
        nontrivial = None
        if l.sinks or not s.clean or markup:
            nontrivial = [ek, src, lab] if round_ == 1 else [ek, src, lab, round_]
        case = {"family": family, "env": ek, "source": src, "data": lab}
        res.case(
            nontrivial=nontrivial,
            outcome=f"{family}:strict={s.label()}:lax-suppressed={bucket(l.sinks)}:warn-warnings={bucket(w.lwarn)}"
                    f":{'same' if w.output == l.output else 'DIFF'}",
            sample=case if (l.sinks and family != "M") else None,
        )
        if l.sinks:
            res.count("cases_with_suppressed_errors")
            if l.parse.sinks:
                res.count("cases_with_parse_time_suppression")
            if l.render.sinks:
                res.count("cases_with_render_time_suppression")
        if s.clean and markup:
            res.count("strict_clean_cases_with_markup")
        for sig, what in viols:
            sig = dict(sig, family="G" if family.startswith("G") else family)
            shown = repr(src) if len(src) < 300 else repr(src[:120]) + f"...<{len(src)} chars>"
            res.violation(sig, f"{shown} data={lab} env={ek}{' (2nd parse+render on the same env)' if round_ == 2 else ''}: {what}", case)
        if family == "K":
            for kname in set(l.parse.sink_kinds + l.render.sink_kinds):
                res.count("K_suppressed_in_lax:" + kname)

    # ------------------------------------------------------------------
    def replay(self, case: Any) -> list[dict[str, Any]]:
        ready()
        res = Result()
        fam = case["family"]
        labels = list(FAMILY_DATA.get(fam, ()))
        if case["data"] in labels:  # same within-source history as the exploration (earlier data sets first)
            labels = labels[: labels.index(case["data"]) + 1]
        else:
            labels = [case["data"]]
        self.run_source(res, fam, case["env"], case["source"], labels=tuple(labels))
        return [v for v in res.violations if v["case"]["data"] == case["data"]]

    def class_coverage(self, res: Result, ek: str) -> None:
        """Which LiquidError subclasses (by reflection) does strict mode raise over the K singles of this env?"""
        from liquid.exceptions import LiquidError

        env = env_for(ek, "strict")
        for src in CG.K_SNIPPETS[ek] + CG.K_SOLO[ek]:
            try:
                env.from_string(src).render(**CG.K_DATA)
            except LiquidError as e:
                res.count("K_strict_raises:" + type(e).__name__)
            except Exception:  # noqa: BLE001  C02's business
                res.count("non_liquid_exception_c02_business")
        if ek == "D":
            def subclasses(c: type) -> Any:
                for sc in c.__subclasses__():
                    yield sc
                    yield from subclasses(sc)
            res.notes.append("LiquidError subclasses defined by the library: "
                             + ", ".join(sorted({c.__name__ for c in subclasses(LiquidError)
                                                 if c.__module__.startswith("liquid")})))


def malformed_sources(k: int, prefix: tuple[int, ...]) -> Iterator[str]:
    """Every M(k) source whose first fragments are ``prefix`` (a 1-prefix shard also owns the bare prefix;
    2-prefix shards: the shard with f1 == 0 also owns the 1-fragment source)."""
    fr = G.FRAGMENTS
    head = " ".join(fr[i] for i in prefix)
    if len(prefix) == 2 and prefix[1] == 0:
        yield fr[prefix[0]]
    yield head
    for n in range(1, k - len(prefix) + 1):
        for combo in itertools.product(fr, repeat=n):
            yield head + " " + " ".join(combo)


def expr_sources_prefixed(head: str, k: int, toks: list[str], t0: int) -> Iterator[tuple[str, str]]:
    """Expression sequences of length 1..k starting with toks[t0]; t0 == 0 also owns the empty sequence."""
    if t0 == 0:
        yield "", head.replace("{E}", "")
    first = toks[t0]
    for n in range(0, k):
        for combo in itertools.product(toks, repeat=n):
            e = " ".join((first,) + combo)
            yield e, head.replace("{E}", e)


def program_corpus(tier: str) -> Iterator[tuple[str, Any]]:
    for p in G.programs(2, 2, level="full", extra=False):
        yield "D", p
    for p in G.programs(2, 2, leaves=CG.X_LEAVES, blocks=CG.X_BLOCKS):
        yield "X", p
    if tier != "quick":
        for p in G._progs_exact(3, 2, *G.menus("core")):
            yield "D", p


CHECK = C03()
