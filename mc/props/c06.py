"""C06 -- the loop iteration limit bounds nested iteration.

Bounded exhaustive enumeration of *nests* (see ``mc/ref/c06_model.py``): every sequence of
depth 1..3 (lengths 0..3; thorough 0..12) and depth 4 (lengths 1..2; thorough {0,1,2,3,5}) over
the repeating constructs ``for``, ``tablerow``,
``include 'p' for arr``, ``render 'p' for arr`` and the transparent carriers ``include 'p'``,
``render 'p'`` (a partial that holds the next level) and ``call m`` (a macro that holds the next
level); every assignment of lengths to the repeating levels; the limit N swept over the critical
set {P-1, P, P+1 : P a prefix product} + {1, 200}.  Each nest is printed as Liquid source
(partials are served by a loader of the harness), rendered by the real engine with ``render()``
and ``render_async()`` under ``loop_iteration_limit = N`` and compared with the arithmetic model.
The block of every level writes its own marker, so block executions are counted from the output.

Oracle clauses (provenance in ``mc/ref/c06_model.py``):

limit-exceeded-but-completed   some prefix product P_j > N  =>  LoopIterationLimitError
raised-within-limit            all P_j <= N  =>  no LoopIterationLimitError
output-differs-from-unlimited  all P_j <= N  =>  output == output of the same nest without a limit
block-executed-beyond-limit    completed  =>  every level's marker count <= N   (monitor, from output)
unexpected-error               never any other exception
baseline-count                 (sanity of the harness) the unlimited render executes level j P_j times
"""

from __future__ import annotations

import itertools
from typing import Any
from typing import Iterator
from typing import Optional

from mc.core import Check
from mc.core import Result
from mc.ref import c06_model as M

LIMIT_LO, LIMIT_HI = 1, 200
MODES = ("sync", "async")


# ---------------------------------------------------------------------------
# the bounded space
# ---------------------------------------------------------------------------
def tier_params(tier: str) -> dict[str, Any]:
    if tier == "quick":
        return {"max_depth": 3, "lengths": (0, 1, 2, 3), "deep_depth": 4, "deep_lengths": (1, 2),
                "variant_depth": 2, "nshards": 96}
    return {"max_depth": 3, "lengths": tuple(range(0, 13)), "deep_depth": 4, "deep_lengths": (0, 1, 2, 3, 5),
            "variant_depth": 2, "nshards": 512}


def shapes(tier: str) -> list[tuple[str, ...]]:
    """Every kind sequence of the tier (deterministic order), including out-of-domain ones."""
    tp = tier_params(tier)
    out: list[tuple[str, ...]] = []
    for d in range(1, tp["max_depth"] + 1):
        out.extend(itertools.product(M.BASE_KINDS, repeat=d))
    if tp["deep_depth"]:
        out.extend(itertools.product(M.BASE_KINDS, repeat=tp["deep_depth"]))
    allk = M.BASE_KINDS + M.VARIANT_KINDS
    for d in range(1, tp["variant_depth"] + 1):
        out.extend(s for s in itertools.product(allk, repeat=d) if any(k in M.VARIANT_KINDS for k in s))
    return out


def lengths_for(kinds: tuple[str, ...], tier: str) -> Iterator[tuple[int, ...]]:
    tp = tier_params(tier)
    pool = tp["deep_lengths"] if (tp["deep_depth"] and len(kinds) == tp["deep_depth"]) else tp["lengths"]
    menus = []
    for k in kinds:
        spec = M.KINDS[k]
        menus.append(tuple(n for n in pool if n >= spec.get("min_n", 0)) if spec["rep"] else (1,))
    return itertools.product(*menus)


# ---------------------------------------------------------------------------
# execution on the real engine
# ---------------------------------------------------------------------------
_ENVS: dict[Optional[int], Any] = {}
_TOPS: dict[tuple[Optional[int], tuple[str, ...]], Any] = {}


def _loader() -> Any:
    from liquid import CachingLoaderMixin
    from liquid.exceptions import TemplateNotFoundError
    from liquid.loader import BaseLoader
    from liquid.loader import TemplateSource

    class NestLoader(CachingLoaderMixin, BaseLoader):
        """Serves the partial that holds the block of level j of a nest (the name encodes the nest)."""

        def __init__(self) -> None:
            super().__init__(auto_reload=False, namespace_key="", capacity=64)

        def get_source(self, env: Any, template_name: str, **kwargs: Any) -> Any:
            src = M.partial_source(template_name)
            if src is None:
                raise TemplateNotFoundError(template_name)
            return TemplateSource(src, template_name, None)

    return NestLoader()


def get_env(limit: Optional[int]) -> Any:
    """One environment (own loader, own template cache) per limit; None = no limit configured."""
    env = _ENVS.get(limit)
    if env is None:
        from mc.util import make_env

        env = make_env(limits={} if limit is None else {"loop_iteration_limit": limit}, loader=_loader(), extra=True)
        if limit is not None and env.loop_iteration_limit != limit:
            raise RuntimeError("harness binding lost: Environment.loop_iteration_limit is not configurable")
        if limit is None and env.loop_iteration_limit is not None:
            raise RuntimeError("harness binding lost: the default loop_iteration_limit is no longer None")
        _ENVS[limit] = env
    return env


def fresh_engine() -> None:
    from mc.util import reset_memo

    _ENVS.clear()
    _TOPS.clear()
    reset_memo()


def run_real(kinds: tuple[str, ...], data: dict[str, Any], limit: Optional[int], mode: str) -> Any:
    from mc import util as U

    key = (limit, kinds)
    top = _TOPS.get(key)
    if top is None:
        if len(_TOPS) > 2000:
            _TOPS.clear()
        top = _TOPS[key] = U.parse(get_env(limit), M.top_source(list(kinds)))
    if not top.ok:
        return top
    return U.render(top.value, data) if mode == "sync" else U.render_async(top.value, data)


# ---------------------------------------------------------------------------
# the oracle
# ---------------------------------------------------------------------------
def _describe(nest: list[Any], limit: Optional[int], mode: str) -> str:
    kinds = [k for k, _ in nest]
    parts = M.partials_of(kinds)
    lens = {f"L{j}": n for j, (_, n) in enumerate(nest, 1)}
    shown = ">".join("%s(%d)" % (M.KINDS[k]["label"], n) for k, n in nest)
    return (f"{M.top_source(kinds)!r} partials={parts!r} lengths={lens!r} loop_iteration_limit={limit} ({mode}); "
            f"nest={shown} products={M.products(nest)}")


def _err(o: Any) -> str:
    return f"{'Liquid error' if o.is_liquid_error else 'non-Liquid exception'} {o.error_class}: {o[2]}"


def _flags(labels: list[str]) -> dict[str, bool]:
    return {"outer_" + lab.replace("-", "_"): (lab in labels) for lab in M.NONFOR_REPEATING_LABELS}


def check_baseline(nest: list[Any], mode: str, base: Any) -> list[dict[str, Any]]:
    kinds = [k for k, _ in nest]
    sig_kinds = "+".join(sorted({M.KINDS[k]["label"] for k in kinds}))
    case = {"nest": [list(x) for x in nest], "limit": None, "mode": mode}
    if not base.ok:
        return [{"signature": {"clause": "unexpected-error", "limit": "none", "exc": base.error_class,
                               "kinds": sig_kinds, "mode": mode},
                 "what": f"{_describe(nest, None, mode)} -> {_err(base)}; a nest inside the documented domain "
                         f"must render when no limit is configured", "case": case}]
    want = M.products(nest)
    got = M.marker_counts(base.value, len(nest))
    if got != want:
        return [{"signature": {"clause": "baseline-count", "kinds": sig_kinds, "mode": mode},
                 "what": f"{_describe(nest, None, mode)} -> blocks executed {got} times per level, the documented "
                         f"loop semantics give {want} (the unlimited baseline itself is wrong; not a limit defect)",
                 "case": case}]
    return []


def check_limited(nest: list[Any], limit: int, mode: str, base: Any, o: Any) -> tuple[str, list[dict[str, Any]]]:
    """-> (observed label, violations) for one (nest, limit, mode) given the unlimited baseline ``base``."""
    kinds = [k for k, _ in nest]
    depth = len(nest)
    expect_raise = M.must_raise(nest, limit)
    case = {"nest": [list(x) for x in nest], "limit": limit, "mode": mode}
    sig_kinds = "+".join(sorted({M.KINDS[k]["label"] for k in kinds}))
    viols: list[dict[str, Any]] = []
    if o.ok:
        observed = "completed"
    elif o.is_liquid_error and o.error_class == "LoopIterationLimitError":
        observed = "LoopIterationLimitError"
    else:
        observed = "error:" + str(o.error_class)
        viols.append({"signature": {"clause": "unexpected-error", "limit": "set", "exc": o.error_class,
                                    "kinds": sig_kinds, "mode": mode},
                      "what": f"{_describe(nest, limit, mode)} -> {_err(o)}; expected "
                              f"{'LoopIterationLimitError' if expect_raise else 'the unlimited output'}", "case": case})
        return observed, viols

    if expect_raise and o.ok:
        jx = M.first_exceeding(nest, limit)
        assert jx is not None
        outer = M.enclosing_nonfor(nest, jx)
        counts = M.marker_counts(o.value, depth)
        sig = {"clause": "limit-exceeded-but-completed", "at": M.KINDS[kinds[jx - 1]]["label"],
               "outer": "+".join(outer) or "none", "mode": mode}
        sig.update(_flags(outer))
        viols.append({"signature": sig,
                      "what": f"{_describe(nest, limit, mode)} -> completed, blocks executed {counts} times per "
                              f"level; the block of level {jx} ({sig['at']}) runs with an enclosing product "
                              f"{M.products(nest)[jx - 1]} > {limit}, so LoopIterationLimitError is required "
                              f"(enclosing non-for repeating constructs: {outer or 'none'})", "case": case})
    elif not expect_raise and not o.ok:
        viols.append({"signature": {"clause": "raised-within-limit", "kinds": sig_kinds, "mode": mode},
                      "what": f"{_describe(nest, limit, mode)} -> LoopIterationLimitError although no product exceeds "
                              f"the limit (docs: the limit is the maximum number of iterations *allowed*)", "case": case})
    elif not expect_raise and o.ok and base.ok and o.value != base.value:
        viols.append({"signature": {"clause": "output-differs-from-unlimited", "kinds": sig_kinds, "mode": mode},
                      "what": f"{_describe(nest, limit, mode)} -> {o.value!r}, without a limit {base.value!r}",
                      "case": case})

    if o.ok and not viols:
        # monitor, from the output alone: no block ran more often than the limit allows
        counts = M.marker_counts(o.value, depth)
        over = [j for j, c in enumerate(counts, 1) if c > limit]
        if over:
            outer = M.enclosing_nonfor(nest, over[0])
            sig = {"clause": "block-executed-beyond-limit", "at": M.KINDS[kinds[over[0] - 1]]["label"],
                   "outer": "+".join(outer) or "none", "mode": mode}
            sig.update(_flags(outer))
            viols.append({"signature": sig,
                          "what": f"{_describe(nest, limit, mode)} -> completed with the block of level {over[0]} "
                                  f"executed {counts[over[0] - 1]} > {limit} times", "case": case})
    return observed, viols


def check_nest(nest: list[Any], limits: Optional[list[int]], modes: tuple[str, ...],
               res: Optional[Result] = None) -> list[dict[str, Any]]:
    """Run one nest (kinds + lengths) under every limit of ``limits`` (None = its critical set)."""
    kinds = tuple(k for k, _ in nest)
    if not M.in_domain(list(kinds)) or not M.lengths_ok(nest):
        raise ValueError(f"nest outside the generated domain: {nest!r}")
    data = M.data_of(nest)
    depth = len(nest)
    viols: list[dict[str, Any]] = []
    if limits is None:
        limits = M.critical_limits(nest, LIMIT_LO, LIMIT_HI)
    mult = M.multiplies(nest)
    has_include_for = any(k == "I" for k in kinds)
    for mode in modes:
        base = run_real(kinds, data, None, mode)
        bv = check_baseline(nest, mode, base)
        viols.extend(bv)
        if res is not None:
            res.count("baseline_renders")
        if bv:
            continue
        for limit in limits:
            o = run_real(kinds, data, limit, mode)
            observed, vs = check_limited(nest, limit, mode, base, o)
            viols.extend(vs)
            if res is not None:
                expect_raise = M.must_raise(nest, limit)
                jx = M.first_exceeding(nest, limit)
                label = (f"d{depth}:expect={'raise@' + str(jx) if expect_raise else 'complete'}:{observed}"
                         f"{':VIOLATION' if vs else ''}")
                nontrivial = mult and limit < LIMIT_HI
                res.case(nontrivial=[list(kinds), [n for _, n in nest], limit, mode] if nontrivial else None,
                         outcome=label,
                         sample={"template": M.top_source(list(kinds)), "partials": M.partials_of(list(kinds)),
                                 "lengths": [n for _, n in nest], "loop_iteration_limit": limit, "mode": mode,
                                 "products": M.products(nest), "expected": "raise" if expect_raise else "complete",
                                 "observed": observed}
                         if (nontrivial and depth >= 3 and len(res.samples) < 1) else None)
                if expect_raise:
                    res.count("cases_expect_raise")
                else:
                    res.count("cases_expect_complete")
                    res.count("blocks_executed_under_limit", sum(M.products(nest)))
                if has_include_for:
                    # the `include 'p' with arr` spelling of the same case: docs only say `for` repeats
                    res.count("unspecified_excluded")
                    res.count("unspecified_include_with_array_spelling")
    return viols


# ---------------------------------------------------------------------------
class C06(Check):
    id = "C06"
    level = "exploration"
    title = "Loop iteration limit bounds nested iteration"
    rule = (
        "Every nest (sequence of levels) inside the bound over for / tablerow / include 'p' for arr / render 'p' for "
        "arr (repeating, length n) and include 'p' / render 'p' / call m (transparent, length 1, the partial or macro "
        "holds the next level) is printed as Liquid source, lengths are passed as data, and rendered by the real engine "
        "(render and render_async) without a limit and under loop_iteration_limit = N for every N of the critical set "
        "{P-1, P, P+1 : P a prefix product of the lengths} + {1, 200} within 1..200. Reference = arithmetic: "
        "LoopIterationLimitError iff some prefix product P_j > N; otherwise the output equals the unlimited render; "
        "a completed render never shows more than N executions of any level's block (markers counted in the output). "
        "One evaluation = one (nest, lengths, N, mode). Non-trivial = nesting multiplies (some prefix product exceeds "
        "every single length) and N < 200; distinct = distinct (kinds, lengths, N, mode). Nests with include below "
        "render/call are outside the domain (the tag is disabled there) and are skipped and counted."
    )
    assumptions = [
        "items are small integers; item values do not influence iteration counts",
        "lengths are set through data (arrays L_j, range end N_j, offset O_j into a 12-item array), so one source per "
        "nest shape is rendered with every length assignment",
        "partials are served by a harness loader built from the documented BaseLoader + CachingLoaderMixin API "
        "(one loader and template cache per environment)",
        "the argument-form variants for (1..n), for/tablerow with offset:, tablerow with cols: are enumerated at "
        "depth <= 2 only; (1..n) only with n >= 1",
        "include 'p' with <array> is not generated: docs/tag_reference.md only documents `for` as repeating "
        "(counted under unspecified_excluded once per case that has an include-for level)",
        "limit 0 / None (no limit) and limits above 200 are outside the quantifier",
        "break / continue / limit: inside the nest are not generated (C13 covers which items a loop visits)",
    ]

    def bounds(self, tier: str) -> dict[str, Any]:
        tp = tier_params(tier)
        b = {
            "constructs": "for, tablerow, include 'p' for arr, render 'p' for arr (repeating); include 'p', "
                          "render 'p', macro call (transparent carriers holding the next level)",
            "depth": f"1..{tp['max_depth']} with lengths {list(tp['lengths'])} per repeating level",
            "variants": f"depth 1..{tp['variant_depth']} nests containing for (1..n) / for offset: / tablerow offset: / "
                        f"tablerow cols:2",
            "limits": "critical set {P-1,P,P+1 : P prefix product} + {1,200}, clipped to 1..200",
            "modes": "render and render_async",
        }
        if tp["deep_depth"]:
            b["depth_deep"] = f"{tp['deep_depth']} with lengths {list(tp['deep_lengths'])}"
        return b

    def shards(self, tier: str) -> list[Any]:
        k = tier_params(tier)["nshards"]
        return [(j, k) for j in range(k)]

    def run_shard(self, shard: Any, tier: str) -> Result:
        j, k = shard
        res = Result()
        fresh_engine()
        for kinds in shapes(tier)[j::k]:
            if not M.in_domain(list(kinds)):
                res.count("shapes_outside_domain_include_below_render_or_call")
                continue
            res.count("shapes")
            for lens in lengths_for(kinds, tier):
                nest = [(kd, n) for kd, n in zip(kinds, lens)]
                res.count("nests")
                for v in check_nest(nest, None, MODES, res):
                    res.violation(v["signature"], v["what"][:1500], v["case"])
        return res

    def replay(self, case: Any) -> list[dict[str, Any]]:
        fresh_engine()
        nest = [(k, int(n)) for k, n in case["nest"]]
        mode = case.get("mode", "sync")
        if case.get("limit") is None:
            base = run_real(tuple(k for k, _ in nest), M.data_of(nest), None, mode)
            return check_baseline(nest, mode, base)
        return check_nest(nest, [int(case["limit"])], (mode,), None)


CHECK = C06()
