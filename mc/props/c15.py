"""C15 -- rendered partials and macros are isolated from their caller.

Bounded exhaustive enumeration on the real implementation, differential oracle (no expected value
is written down anywhere; the implementation is compared with itself under a varied caller):

* caller prefixes: every sequence of <= 2 (thorough 3) local-binding ops
  {assign, capture, for, with, increment, tablerow} x names {v, w, p}; block ops (for, with,
  tablerow) wrap the call site, so their variable -- and forloop / tablerowloop -- is live at the call.
  v is the name of the keyword argument / alias / macro parameter, p the partial's own name (the
  default bound variable of ``render 'p' with x``), w a name only the partial uses.
* call sites: ``render 'p'``, ``render 'p', v: x``, ``render 'p' with x``, ``render 'p' with x as v``,
  ``render 'p' for arr as v``, ``render 'p' for arr``, ``call m0``, ``call m1, x``, ``call m1`` (parameter
  left unbound) and the inline-snippet forms ``render s, v: x`` (quick and thorough), ``render s``,
  ``render s for arr as v`` (thorough).  Explicit arguments are global data (x, arr) that no caller op
  can rebind, so every caller prefix passes the same explicit arguments.
* bodies (of the partial, the macro and the snippet alike): every sequence of <= 2 (thorough 3) ops
  out of 15: output v/w/p, ``if`` on v/w, assign v/w/p, capture v/w, increment v/w, loop over v/w, and a
  read of the loop objects (forloop, forloop.parentloop at the top level of the body -- inside
  ``render ... for`` that is the parent of the render's own loop -- and from the body's own loop,
  tablerowloop);
  the quick tier leaves out ``if v`` and the loop over w (13 ops).
* global data: G0 = nothing global is called v, w, p; G1 = v, w, p are render arguments; G2 = w is an
  environment global, p a template global, v a render argument.
* ``render`` and ``render_async``.  Which (globals, api) pairs run on which prefix/body lengths is
  listed by ``tier_params`` and written to the evidence (``bounds``).

Oracle clauses
  (1) partial-sees-caller: the text between the sentinels around a call site is, for every occurrence
      (loops in the prefix execute the site several times), identical to the text the same
      (site, body, globals, api) produces under the *empty* caller prefix.
  (2) caller-sees-partial: the caller's own output (everything outside the sentinels: the outputs of
      the prefix ops, a probe ``[{{v}}|{{w}}|{{p}}]`` after the sites inside the prefix blocks, a final
      probe and a final ``increment`` of each name) is identical to what the same caller produces
      when the partial / macro / snippet body is *empty*.
  (3) include-disabled: a body that reaches an ``include`` tag (directly, inside a block of the
      partial, or in a partial that the partial renders) makes the strict-mode render raise
      DisabledTagError, for every caller prefix and render site.  For ``call`` sites the statement
      only speaks about local variables and docs/optional_tags.md do not say that include is
      disabled: executed, labelled, excluded from the verdict.
  (4) render-for-iterations-independent (statement: "sees only its explicit arguments, its bound
      variable and global data"; tag_reference.md#render: "rendered once for each item in the
      sequence and, like `with` above, the item value will be bound to a variable"): under the empty
      prefix ``render 'p' for arr [as v]`` renders the concatenation of ``render 'p' with arr[0] [as v]``
      and ``render 'p' with arr[1] [as v]`` for every body that does not read forloop.

The sites of one (prefix, body) are rendered in one template; when anything deviates every site is
re-rendered alone so that a report names the site that deviates (a deviation that needs the other
sites is reported as such).
"""

from __future__ import annotations

from typing import Any
from typing import Optional

from liquid import CachingDictLoader
from liquid.exceptions import DisabledTagError

from mc import util
from mc.core import Check
from mc.core import Result
from mc.ref import c15_gen as G

try:  # experimental tag (docs/experimental_tags.md); its sites are skipped and counted if it goes away
    from liquid.extra import SnippetTag
except ImportError:  # pragma: no cover
    SnippetTag = None  # type: ignore[assignment,misc]

APIS = ("sync", "async")
ENVKEY = {"G0": "E0", "G1": "E0", "G2": "E2"}


def split_cfg(cfg: str) -> tuple[str, tuple[str, ...]]:
    """'G1:sync+async' -> ('G1', ('sync', 'async')): which global data, which render APIs."""
    g, _, a = cfg.partition(":")
    return g, tuple(a.split("+")) if a else APIS


# ---------------------------------------------------------------------------
# environments and execution
# ---------------------------------------------------------------------------
_ENV_CACHE: dict[tuple[G.Body, str], Any] = {}


def get_env(body: G.Body, cfg: str) -> Any:
    gcfg = split_cfg(cfg)[0]
    key = (tuple(body), ENVKEY[gcfg])
    env = _ENV_CACHE.get(key)
    if env is None:
        if len(_ENV_CACHE) > 8:
            _ENV_CACHE.clear()
        env_globals = G.GCFGS[gcfg][0]
        env = util.make_env(extra=True, loader=CachingDictLoader(G.partials(body)), globals=dict(env_globals) or None)
        if SnippetTag is not None:
            env.add_tag(SnippetTag)
        for tag in ("render", "include", "macro", "call", "with", "tablerow", "increment", "capture"):
            if tag not in env.tags:
                raise RuntimeError(f"harness binding lost: Environment(extra=True) has no {tag!r} tag")
        _ENV_CACHE[key] = env
    return env


QUICK_SKIPPED_SITES = ("s", "u")  # two of the three inline-snippet forms run in the thorough tier only


def sites_available(tier: str = "thorough") -> list[str]:
    return [s for s in G.site_ids(SnippetTag is not None) if tier != "quick" or s not in QUICK_SKIPPED_SITES]


_TPL_CACHE: dict[tuple[Any, ...], Any] = {}


def run(prefix: G.Prefix, sites: tuple[str, ...], body: G.Body, cfg: str,
        apis: Optional[tuple[str, ...]] = None) -> dict[str, util.Outcome]:
    """Render one caller with the APIs of the configuration -> {api: Outcome}."""
    env = get_env(body, cfg)
    gcfg, cfg_apis = split_cfg(cfg)
    apis = apis or cfg_apis
    _, tglobals, data = G.GCFGS[gcfg]
    key = (body, ENVKEY[gcfg], prefix, sites, bool(tglobals))
    t = _TPL_CACHE.get(key)
    if t is None:
        if len(_TPL_CACHE) > 64:
            _TPL_CACHE.clear()
        src = G.caller_src(prefix, sites, body)
        t = util.parse(env, src, globals=dict(tglobals)) if tglobals else util.parse(env, src)
        _TPL_CACHE[key] = t
    if not t.ok:
        return {api: t for api in apis}
    return {api: (util.render(t.value, data) if api == "sync" else util.render_async(t.value, data)) for api in apis}


def describe(family: str, prefix: G.Prefix, sites: tuple[str, ...], body: G.Body, cfg: str) -> dict[str, Any]:
    eg, tg, data = G.GCFGS[split_cfg(cfg)[0]]
    return {"family": family, "prefix": [list(o) for o in prefix], "sites": list(sites), "body": list(body),
            "cfg": cfg, "source": G.caller_src(prefix, sites, body), "partials": G.partials(body),
            "render_args": data, "template_globals": tg, "environment_globals": eg}


def err_text(o: util.Outcome) -> str:
    return f"{o[1]}: {str(o[2]).splitlines()[0] if o[2] else ''}"


# ---------------------------------------------------------------------------
# reference runs (the implementation itself, under the empty prefix / with the empty body)
# ---------------------------------------------------------------------------
_BASE: dict[tuple[Any, ...], dict[str, Any]] = {}
_SKEL: dict[tuple[Any, ...], dict[str, Any]] = {}


def baseline(site: str, body: G.Body, cfg: str, api: str) -> Any:
    """segment text | ('err', class) of one site alone under the empty caller prefix."""
    gcfg = split_cfg(cfg)[0]
    key = (site, body, gcfg, api)
    b = _BASE.get(key)
    if b is None:
        if len(_BASE) > 8192:
            _BASE.clear()
        o = run((), (site,), body, gcfg, (api,))[api]
        if not o.ok:
            b = ("err", o.error_class)
        else:
            segs = G.segments(o.value).get(site, [])
            b = segs[0] if len(segs) == 1 else ("err", f"unsplittable:{o.value!r}")
        _BASE[key] = b
    return b


def ref_skeleton(prefix: G.Prefix, sites: tuple[str, ...], cfg: str, api: str) -> Any:
    """caller's own output | ('err', class) of the same caller around an empty body."""
    gcfg = split_cfg(cfg)[0]
    key = (prefix, sites, gcfg, api)
    s = _SKEL.get(key)
    if s is None:
        if len(_SKEL) > 100000:
            _SKEL.clear()
        o = run(prefix, sites, (), gcfg, (api,))[api]
        s = G.skeleton(o.value) if o.ok else ("err", o.error_class)
        _SKEL[key] = s
    return s


# ---------------------------------------------------------------------------
# evaluation of one caller (one or many sites)
# ---------------------------------------------------------------------------
Dev = tuple[str, str, str, str]  # (clause, site id or '*', feature, text)


def deviations(prefix: G.Prefix, sites: tuple[str, ...], body: G.Body, cfg: str,
               outs: Optional[dict[str, util.Outcome]] = None) -> dict[str, list[Dev]]:
    """{api: deviations} of one caller from its two reference runs."""
    if outs is None:
        outs = run(prefix, sites, body, cfg)
    only = sites[0] if len(sites) == 1 else "*"
    per_api: dict[str, list[Dev]] = {}
    for api, o in outs.items():
        devs: list[Dev] = []
        if not o.ok:
            # the body renders without error under the empty prefix (or fails the same way)
            bases = {baseline(s, body, cfg, api) for s in sites}
            if ("err", o.error_class) not in bases:
                devs.append(("error-depends-on-caller", only, o.error_class or "?", err_text(o)))
            per_api[api] = devs
            continue
        segs = G.segments(o.value)
        for s in sites:
            want = baseline(s, body, cfg, api)
            got = segs.get(s, [])
            if isinstance(want, tuple):
                devs.append(("error-depends-on-caller", s, str(want[1]), f"empty prefix fails with {want[1]}, "
                             f"this caller renders {got!r}"))
                continue
            bad = [g for g in got if g != want]
            if not got:
                devs.append(("partial-sees-caller", s, "site-not-rendered", f"site {G.SITE_BY_ID[s][3]} left no "
                             f"output segment in {o.value!r}"))
            elif bad:
                devs.append(("partial-sees-caller", s, G.leak_feature(bad[0], want),
                             f"site {G.SITE_BY_ID[s][3]} rendered {bad[0]!r}, under the empty caller prefix {want!r}"))
        skel = G.skeleton(o.value)
        ref = ref_skeleton(prefix, sites, cfg, api)
        if skel != ref:
            if isinstance(ref, tuple):
                devs.append(("error-depends-on-body", only, str(ref[1]), f"caller with empty body fails: {ref[1]}"))
            else:
                devs.append(("caller-sees-partial", only, G.leak_feature(skel, ref),
                             f"caller output {skel!r}, with an empty body {ref!r}"))
        per_api[api] = devs
    return per_api


def merge_apis(per_api: dict[str, list[Dev]]) -> list[tuple[str, str, str, str, str]]:
    keys: dict[tuple[str, str, str], dict[str, str]] = {}
    for api, devs in per_api.items():
        for clause, site, feature, text in devs:
            keys.setdefault((clause, site, feature), {}).setdefault(api, text)
    out = []
    for (clause, site, feature), apis in keys.items():
        api = "both" if len(apis) == len(APIS) else next(iter(apis))  # 'sync'/'async': the only deviating (or only executed) one
        out.append((clause, site, feature, api, next(iter(apis.values()))))
    return out


def signature(clause: str, site: str, feature: str, api: str, cfg: str, batched_only: bool) -> dict[str, Any]:
    gcfg = split_cfg(cfg)[0]
    label, construct = ("*", "*") if site == "*" else G.SITE_BY_ID[site][1:3]
    return {"clause": clause, "construct": construct, "site": label, "feature": feature, "api": api,
            "globals": gcfg, "batched_only": batched_only}


def eval_iso(prefix: G.Prefix, sites: tuple[str, ...], body: G.Body, gcfg: str
             ) -> tuple[list[tuple[dict[str, Any], str, dict[str, Any]]], dict[str, util.Outcome]]:
    """-> ([(signature, what, case)], outcomes of the batched run)."""
    outs = run(prefix, sites, body, gcfg)
    per_api = deviations(prefix, sites, body, gcfg, outs)
    viols: list[tuple[dict[str, Any], str, dict[str, Any]]] = []
    if not any(per_api.values()):
        return viols, outs
    if len(sites) > 1:
        # re-render every site alone: which one deviates on its own?
        for s in sites:
            single = deviations(prefix, (s,), body, gcfg)
            case = describe("iso", prefix, (s,), body, gcfg)
            for clause, site, feature, api, text in merge_apis(single):
                viols.append((signature(clause, s if site == "*" else site, feature, api, gcfg, False),
                              f"{case['source']} partials={case['partials']} globals={gcfg} -> {text} [{api}]", case))
        if viols:
            return viols, outs
    case = describe("iso", prefix, sites, body, gcfg)
    for clause, site, feature, api, text in merge_apis(per_api):
        viols.append((signature(clause, site, feature, api, gcfg, len(sites) > 1),
                      f"{case['source']} partials={case['partials']} globals={gcfg} -> {text} [{api}]"
                      + (" (every site alone is fine)" if len(sites) > 1 else ""), case))
    return viols, outs


def eval_include(prefix: G.Prefix, site: str, body: G.Body, gcfg: str
                 ) -> tuple[list[tuple[dict[str, Any], str, dict[str, Any]]], str, bool]:
    """-> (violations, outcome label, specified?)."""
    outs = run(prefix, (site,), body, gcfg)
    label, construct = G.SITE_BY_ID[site][1:3]
    specified = construct != "call"
    per_api: dict[str, list[Dev]] = {}
    kinds = []
    for api, o in outs.items():
        devs: list[Dev] = []
        if o.ok:
            kinds.append("rendered")
            devs.append(("include-not-disabled", site, body[-1], f"rendered {o.value!r}, expected DisabledTagError"))
        elif o.is_liquid_error and isinstance(o[3], DisabledTagError):
            kinds.append("DisabledTagError")
        else:
            kinds.append(str(o.error_class))
            devs.append(("include-wrong-error", site, f"{body[-1]}:{o.error_class}", f"{err_text(o)}, expected DisabledTagError"))
        per_api[api] = devs if specified else []
    viols = []
    case = describe("include", prefix, (site,), body, gcfg)
    for clause, s, feature, api, text in merge_apis(per_api):
        viols.append((signature(clause, s, feature, api, gcfg, False),
                      f"{case['source']} partials={case['partials']} -> {text} [{api}]", case))
    return viols, f"include:{construct}:{body[-1]}:" + "/".join(sorted(set(kinds))), specified


def eval_iterations(site: str, body: G.Body, cfg: str
                    ) -> tuple[list[tuple[dict[str, Any], str, dict[str, Any]]], str]:
    """`render 'p' for arr [as v]` against one `render 'p' with arr[i] [as v]` per item (empty prefix)."""
    parts = G.ITERATION_RELATIONS[site]
    per_api: dict[str, list[Dev]] = {}
    label = "same"
    for api in split_cfg(cfg)[1]:
        whole = baseline(site, body, cfg, api)
        pieces = [baseline(s, body, cfg, api) for s in parts]
        devs: list[Dev] = []
        if isinstance(whole, tuple) or any(isinstance(x, tuple) for x in pieces):
            kinds = {x[1] if isinstance(x, tuple) else "ok" for x in (whole, *pieces)}
            if len(kinds) > 1:
                devs.append(("render-for-iterations-independent", site, "error", f"for: {whole!r}, one by one: {pieces!r}"))
        elif whole != "".join(pieces):
            devs.append(("render-for-iterations-independent", site, "previous-iteration-state",
                         f"[{G.leak_feature(whole, ''.join(pieces))}] {G.SITE_BY_ID[site][3]} rendered {whole!r}, but "
                         + " + ".join(G.SITE_BY_ID[s][3] for s in parts) + f" render {''.join(pieces)!r}"))
        if devs:
            label = "differs"
        per_api[api] = devs
    case = describe("iterations", (), (site,), body, cfg)
    viols = []
    for clause, s, feature, api, text in merge_apis(per_api):
        viols.append((signature(clause, s, feature, api, cfg, False),
                      f"partials={case['partials']} globals={split_cfg(cfg)[0]}: {text} [{api}]", case))
    return viols, f"iterations:{G.SITE_BY_ID[site][1]}:{label}"


# ---------------------------------------------------------------------------
# the check
# ---------------------------------------------------------------------------
ALL = "sync+async"


def tier_params(tier: str) -> dict[str, Any]:
    """jobs: (family, max prefix ops, max body ops, configurations 'globals:apis', body alphabet)."""
    if tier == "quick":
        return {"jobs": [("iso", 2, 2, ("G0:" + ALL, "G1:sync"), "quick"), ("iso", 1, 2, ("G2:" + ALL,), "quick")],
                "inc": [(1, 2, ("G0:" + ALL,))], "iter": 2}
    # thorough: everything on the 2x2 block, all configurations with 3-op prefixes x 1-op bodies and 1-op
    # prefixes x 3-op bodies, and the sync API without v/w/p globals on the 3x2 and 2x3 blocks
    full = ("G0:" + ALL, "G1:" + ALL)
    full3 = full + ("G2:" + ALL,)
    return {"jobs": [("iso", 2, 2, full3, "thorough"), ("iso", 3, 1, full, "thorough"), ("iso", 1, 3, full3, "thorough"),
                     ("iso", 3, 2, ("G0:sync",), "thorough"), ("iso", 2, 3, ("G0:sync",), "thorough")],
            "inc": [(2, 2, full), (1, 3, full)], "iter": 3}


_PREFIXES: dict[int, list[G.Prefix]] = {}
_BODIES: dict[tuple[int, str], list[G.Body]] = {}
_INCB: dict[tuple[int, str], list[G.Body]] = {}


def prefixes(n: int) -> list[G.Prefix]:
    if n not in _PREFIXES:
        _PREFIXES[n] = G.prefixes(n)
    return _PREFIXES[n]


def body_ops(tier: str) -> tuple[str, ...]:
    return G.BODY_OP_NAMES_QUICK if tier == "quick" else G.BODY_OP_NAMES


def bodies(n: int, tier: str) -> list[G.Body]:
    if (n, tier) not in _BODIES:
        _BODIES[(n, tier)] = G.bodies(n, body_ops(tier))
    return _BODIES[(n, tier)]


def inc_bodies(n: int, tier: str) -> list[G.Body]:
    if (n, tier) not in _INCB:
        _INCB[(n, tier)] = G.include_bodies(n, body_ops(tier))
    return _INCB[(n, tier)]


def nontrivial_id(prefix: G.Prefix, site: str, body: G.Body, gcfg: str) -> Optional[list[Any]]:
    """Non-trivial: the caller binds a name the body reads (or a loop whose loop object the body
    reads), or the body writes a name (then the caller's probes of that name are at stake)."""
    reads, writes = G.body_reads(body), G.body_writes(body)
    binds = G.prefix_binds(prefix)
    if (reads & binds) or writes or ("forloop" in reads and G.prefix_has_loop(prefix)):
        return ["iso", prefix, site, body, split_cfg(gcfg)[0]]
    return None


class C15(Check):
    id = "C15"
    level = "exploration"
    rule = (
        "isolation: product of caller prefixes (every sequence of <=2, thorough <=3, ops {assign, capture, for, "
        "with, increment, tablerow} x {v,w,p}; block ops wrap the call) x call sites (6 render forms of partial "
        "'p', 3 call forms of macros m0/m1(v), 1 (thorough 3) render forms of an inline snippet) x bodies (every "
        "sequence of <=2, thorough <=3, of 15 ops: output v/w/p, if v/w, assign v/w/p, capture v/w, increment "
        "v/w, for over v/w, read forloop/parentloop/tablerowloop; quick: 13 ops, without `if v` and `for over "
        "w`) x global data (none of v,w,p global / all three render arguments / one per layer env-global, "
        "template-global, render argument) x {render, render_async}; the (globals, api) pairs run per "
        "prefix/body length are listed under bounds. The sites of one (prefix, body) share a template "
        "(on a deviation every site is re-rendered alone). "
        "include: bodies of <=2 (thorough 3) ops ending in include / include inside if / render of a "
        "partial that includes, x prefixes of <=1 (thorough 2) ops x every site, one site per template. "
        "iterations: every body without a forloop read x 3 global configurations x 2 apis x "
        "{render for arr as v, render for arr} against one `render with arr[i]` per item. "
        "A case = (prefix, site, body, globals, api). Non-trivial = the prefix binds a name the body reads "
        "(or a loop and the body reads the loop objects), or the body assigns/captures/increments a name "
        "(caller probes at stake), or the body reaches an include at a render/snippet site, or a non-empty "
        "body in the iterations family; identity = (prefix, site, body, globals)."
    )
    assumptions = [
        "names beyond {v,w,p}, marker values beyond the distinct strings used and loops longer than 2 items behave alike",
        "explicit arguments are global data (x, arr) that no caller op rebinds, so all prefixes pass the same arguments; "
        "arguments computed from caller locals legitimately depend on the caller and are not generated",
        "macro parameter defaults are documented to be evaluated in the caller at call time: not generated",
        "counters created by increment in the caller count as caller state the partial must not see, and counters "
        "the partial creates as variables the caller must not see (statement: 'sees only its explicit arguments, "
        "its bound variable and global data'; tag_reference.md#render: 'its own scope, without variables defined in "
        "the calling template'); such deviations carry feature 'number' (a counter value or a loop index)",
        "include inside a macro body: the statement isolates macros from caller *local variables* only and "
        "docs/optional_tags.md is silent on include: executed and labelled, excluded from the verdict",
        "forloop.parentloop read at the top level of a partial rendered with `render ... for` must not expose the "
        "caller's enclosing loop (the caller's loop is neither an explicit argument, the bound variable nor global data)",
        "cycle / ifchanged / break / continue / `offset: continue` state across render is not part of the statement: not generated",
        "CachingDictLoader is only used so that partial 'p' is parsed once per body (C23 covers its transparency)",
    ]

    def bounds(self, tier: str) -> dict[str, Any]:
        tp = tier_params(tier)
        return {
            "isolation": [f"prefixes<={pl} ops ({len(prefixes(pl))}) x bodies<={bl} ops over {len(body_ops(al))} body ops "
                          f"({len(bodies(bl, al))}) x {len(sites_available(tier))} sites x (globals:apis) {', '.join(gs)}"
                          for _, pl, bl, gs, al in tp["jobs"]],
            "include": [f"prefixes<={pl} ops ({len(prefixes(pl))}) x include-terminated bodies<={bl} ops "
                        f"({len(inc_bodies(bl, tier))}) x {len(sites_available(tier))} sites x (globals:apis) {', '.join(gs)}"
                        for pl, bl, gs in tp["inc"]],
            "names": "v, w, p", "loop_items": 2,
        }

    def shards(self, tier: str) -> list[Any]:
        tp = tier_params(tier)
        out: list[Any] = []
        per = 3
        for ji, (_, pl, bl, gs, al) in enumerate(tp["jobs"]):
            nb = len(bodies(bl, al))
            step = per if len(prefixes(pl)) > 100 else per * 12
            if tier != "quick" and pl >= 3:
                # split the prefixes too: one body x 6175 prefixes is already a long shard
                nparts = 4
            else:
                nparts = 1
            for lo in range(0, nb, step):
                for part in range(nparts):
                    out.append(("iso", ji, lo, min(nb, lo + step), part, nparts))
        nb = len(bodies(tp["iter"], tier))
        for lo, hi in util.index_shards(nb, 4 if tier == "quick" else 64):
            out.append(("iter", lo, hi))
        for k, (pl, bl, gs) in enumerate(tp["inc"]):
            nb = len(inc_bodies(bl, tier))
            step = 8 if len(prefixes(pl)) < 100 else 1
            for lo in range(0, nb, step):
                out.append(("inc", k, lo, min(nb, lo + step)))
        return out

    # -- execution ----------------------------------------------------------
    def run_shard(self, shard: Any, tier: str) -> Result:
        res = Result()
        util.reset_memo()
        tp = tier_params(tier)
        sites = tuple(sites_available(tier))
        if SnippetTag is None:
            res.count("snippet_tag_unavailable_sites_skipped", 3)
        if shard[0] == "iso":
            _, ji, lo, hi, part, nparts = shard
            _, pl, bl, gcfgs, al = tp["jobs"][ji]
            # bodies already covered by an earlier job of the tier with the same globals are not repeated
            pfx = prefixes(pl)
            span = util.index_shards(len(pfx), nparts)[part] if nparts > 1 else (0, len(pfx))
            for bi in range(lo, hi):
                body = bodies(bl, al)[bi]
                for pi in range(span[0], span[1]):
                    prefix = pfx[pi]
                    if self.covered_earlier(tp, ji, prefix, body):
                        continue
                    for gcfg in gcfgs:
                        self.one_iso(res, prefix, sites, body, gcfg, sample=(bi == hi - 1 and pi == span[1] - 1))
        elif shard[0] == "iter":
            _, lo, hi = shard
            for bi in range(lo, hi):
                body = bodies(tp["iter"], tier)[bi]
                if "FL" in body:
                    # forloop.index etc. legitimately differ between `for` and `with`
                    res.count("iterations_relation_not_applicable_body_reads_forloop")
                    continue
                for g in G.GCFGS:
                    cfg = f"{g}:{ALL}"
                    for site in G.ITERATION_RELATIONS:
                        viols, label = eval_iterations(site, body, cfg)
                        res.count("templates", 3)
                        res.count("renders", 6)
                        res.case(nontrivial=["iter", site, body, g] if body else None, outcome=label, n=2,
                                 sample=describe("iterations", (), (site,), body, cfg)
                                 if (bi == hi - 1 and g == "G1" and site == "4") else None)
                        for sig, what, case in viols:
                            res.violation(sig, what, case)
        else:
            _, k, lo, hi = shard
            pl, bl, gcfgs = tp["inc"][k]
            for bi in range(lo, hi):
                body = inc_bodies(bl, tier)[bi]
                for pi, prefix in enumerate(prefixes(pl)):
                    for gcfg in gcfgs:
                        for s in sites:
                            viols, label, specified = eval_include(prefix, s, body, gcfg)
                            napi = len(split_cfg(gcfg)[1])
                            res.count("templates")
                            res.count("renders", napi)
                            if not specified:
                                res.count("unspecified_excluded", napi)
                                res.count("excluded:include_inside_macro_body", napi)
                            res.case(nontrivial=["inc", prefix, s, body, split_cfg(gcfg)[0]] if specified else None,
                                     outcome=label, n=napi,
                                     sample=describe("include", prefix, (s,), body, gcfg)
                                     if (bi == hi - 1 and pi == 7 and s == "4") else None)
                            for sig, what, case in viols:
                                res.violation(sig, what, case)
        return res

    @staticmethod
    def covered_earlier(tp: dict[str, Any], ji: int, prefix: G.Prefix, body: G.Body) -> bool:
        def pairs(cfgs: tuple[str, ...]) -> set[tuple[str, str]]:
            return {(split_cfg(c)[0], a) for c in cfgs for a in split_cfg(c)[1]}

        me = pairs(tp["jobs"][ji][3])
        for _, pl, bl, gs, al in tp["jobs"][:ji]:
            if len(prefix) <= pl and len(body) <= bl and me <= pairs(gs) and set(body) <= set(body_ops(al)):
                return True
        return False

    def one_iso(self, res: Result, prefix: G.Prefix, sites: tuple[str, ...], body: G.Body, gcfg: str, sample: bool) -> None:
        viols, outs = eval_iso(prefix, sites, body, gcfg)
        napi = len(outs)
        res.count("templates")
        res.count("renders", napi)
        bad_sites = {v[2]["sites"][0] if len(v[2]["sites"]) == 1 else "*" for v in viols}
        first = next(iter(outs.values()))
        segs = G.segments(first.value) if first.ok else {}
        for s in sites:
            seg = segs.get(s)
            label = (f"{G.SITE_BY_ID[s][1]}:{gcfg}:{G.shape(seg[0] if seg else None)}:x{len(seg) if seg else 0}:"
                     + ("viol" if (s in bad_sites or "*" in bad_sites) else "ok"))
            res.case(nontrivial=nontrivial_id(prefix, s, body, gcfg), outcome=label, n=napi,
                     sample=describe("iso", prefix, sites, body, gcfg) if (sample and s == sites[0]) else None)
        for sig, what, case in viols:
            res.violation(sig, what, case)

    # -- replay -------------------------------------------------------------
    def replay(self, case: Any) -> list[dict[str, Any]]:
        prefix = tuple((k, n) for k, n in case["prefix"])
        sites = tuple(case["sites"])
        body = tuple(case["body"])
        gcfg = case["cfg"]
        print(f"template: {G.caller_src(prefix, sites, body)}\npartials: {G.partials(body)}\n"
              f"(env globals, template globals, render args): {G.GCFGS[split_cfg(gcfg)[0]]}")
        if case["family"] == "include":
            viols = eval_include(prefix, sites[0], body, gcfg)[0]
        elif case["family"] == "iterations":
            for s in (sites[0], *G.ITERATION_RELATIONS[sites[0]]):
                print(f"{G.SITE_BY_ID[s][3]} -> { {a: baseline(s, body, gcfg, a) for a in split_cfg(gcfg)[1]} }")
            viols = eval_iterations(sites[0], body, gcfg)[0]
        else:
            viols, outs = eval_iso(prefix, sites, body, gcfg)
            for api, o in outs.items():
                print(f"{api}: {o.value!r}" if o.ok else f"{api}: {err_text(o)}")
            for s in sites:
                print(f"empty-prefix segment of site {s}: { {a: baseline(s, body, gcfg, a) for a in outs} }")
            print(f"empty-body caller output: { {a: ref_skeleton(prefix, sites, gcfg, a) for a in outs} }")
        return [{"signature": s, "what": w, "case": c} for s, w, c in viols]


CHECK = C15()
