"""C17 — rendering is pure and independent of history.

Exhaustive enumeration of render HISTORIES (sequences of render actions executed in one
process, sharing environments, parsed templates, loaders and the very same data objects)
over an alphabet chosen so that actions collide in every process-wide or long-lived store
(the ``date`` filter memo, lexer/parser memos, stateful tags, array filters on shared
lists, caching-loader partials, macros, template inheritance).

Every history runs in a child forked from a worker that has never rendered anything, so
"pristine" is exact and does not rely on knowing which memo tables exist.  Oracles after
every render of every history:
  1. its output equals the output of the same action as the first action of a fresh
     process (computed once per action in its own forked child);
  2. the data passed in is unchanged (type-strict, order-strict deep snapshot) -- the same
     data objects are reused by later renders of the history;
  3. the parsed template's fingerprint (str() + a structural walk) is unchanged.
"""

from __future__ import annotations

import datetime
import itertools
import json
import os
import pickle
from typing import Any
from typing import Iterator

import liquid  # noqa: F401  imported in the worker so that forked children do not pay for it (importing renders nothing)
from mc import util as _U  # noqa: F401
from mc.core import Check
from mc.core import Result

UTC = datetime.timezone.utc
PLUS1 = datetime.timezone(datetime.timedelta(hours=1))
MINUS5 = datetime.timezone(datetime.timedelta(hours=-5))

PARTIALS = {
    "p": "<p:{{ v }}{{ x }}>",
    "cnt": "{% increment c %}{% cycle 'a', 'b' %}",
    "base": "[{% block b %}B{{ x }}{% endblock %}]",
    "leaf": "{% extends 'base' %}{% block b %}L{{ block.super }}{% endblock %}",
    "mac": "{% macro m a %}M{{ a }}{% endmacro %}",
}


def _markup(s: str) -> Any:
    from markupsafe import Markup

    return Markup(s)


def make_data() -> dict[str, dict[str, Any]]:
    """Data sets; built fresh at the start of every history and then SHARED by its renders."""
    lst = [3, 1, 2, 1]
    nested = {"a": [{"k": 2}, {"k": 1}, {"k": None}], "b": {"c": [1, [2, 3]]}}
    return {
        "i1": {"x": 1}, "bT": {"x": True}, "f1": {"x": 1.0}, "s1": {"x": "1"},
        "dUTC": {"x": datetime.datetime(2020, 5, 17, 10, 0, tzinfo=UTC)},
        "dP1": {"x": datetime.datetime(2020, 5, 17, 11, 0, tzinfo=PLUS1)},
        "dM5": {"x": datetime.datetime(2020, 5, 17, 5, 0, tzinfo=MINUS5)},
        "dNaive": {"x": datetime.datetime(2020, 5, 17, 10, 0)},
        "sDate": {"x": "2020-05-17 10:00:00 +0100"},
        "L": {"a": lst, "b": [9, lst], "x": 2, "y": nested},
        "L2": {"a": [[2, 1], [1, 2]], "b": [], "x": "z", "y": {"a": [], "b": {}}},
        "E": {},
        # equal numbers of different type (1 == 1.0 == True, "1"): any memo keyed on ==/hash collides
        "n_i": {"x": 1, "a": [1, 2, 3], "z": 2}, "n_f": {"x": 1.0, "a": [1.0, 2.0, 3.0], "z": 2.0},
        "n_b": {"x": True, "a": [True, 2, 3], "z": 2}, "n_s": {"x": "1", "a": ["1", "2", "3"], "z": "2"},
        "m_t": {"x": True}, "m_f": {"x": False},
        "z_bad": {"x": 4, "z0": 0, "a": [1, 2, 3]}, "z_ok": {"x": 4, "z0": 2, "a": [1, 2, 3]},
        "z_none": {"x": 4, "z0": 9, "a": [1, 2, 3]},
        # text that compares (and hashes) equal but differs in "safe" marking: str vs markupsafe.Markup
        "t_plain": {"x": "a<b>&\"' z"}, "t_safe": {"x": _markup("a<b>&\"' z")},
        "t_plain2": {"x": "PGI+ %3C&lt;"}, "t_safe2": {"x": _markup("PGI+ %3C&lt;")},
    }


# (template id, source); templates are parsed once at the start of a history
TEMPLATES: dict[str, str] = {
    "date": "{{ x | date: '%H:%M %z' }}",
    "dateY": "{{ x | date: '%Y' }}",
    "cycle": "{% cycle 'a', 'b', 'c' %}{% cycle 'a', 'b', 'c' %}",
    "incr": "{% increment c %}{% increment c %}{% decrement d %}{{ c }}",
    "ifch": "{% ifchanged %}{{ x }}{% endifchanged %}{% ifchanged %}{{ x }}{% endifchanged %}",
    "cont": "{% for i in a limit: 2 %}{{ i }}{% endfor %}|{% for i in a offset: continue %}{{ i }}{% endfor %}",
    "contOnly": "{% for i in a offset: continue %}{{ i }}{% endfor %}",
    "sort": "{{ a | sort | join: ',' }}|{{ a | join: ',' }}",
    "rev": "{{ a | reverse | join: ',' }}|{% for i in a reversed %}{{ i }}{% endfor %}|{{ a | join: ',' }}",
    "uniq": "{{ a | uniq | join: ',' }}|{{ a | compact | size }}|{{ a | concat: b | size }}|{{ a | size }}",
    "map": "{{ y.a | map: 'k' | join: ',' }}|{{ y.a | where: 'k' | size }}|{{ y.a | sort: 'k' | map: 'k' | join: ',' }}|{{ y | json }}",
    "asg": "{% assign a = a | sort %}{% assign q = b | first %}{{ a | join: ',' }}{{ q }}{% capture x %}c{{ x }}{% endcapture %}{{ x }}",
    "flat": "{{ b | join: '-' }}|{{ b | sort_natural | size }}|{{ b | sum }}",
    "render": "{% render 'p', v: x %}{% render 'cnt' %}{% include 'cnt' %}",
    "include": "{% assign x = 'inc' %}{% include 'p' with a %}{{ p }}{% include 'cnt' %}",
    "extends": "{% render 'leaf', x: x %}",
    "leafdirect": "{% extends 'base' %}{% block b %}D{{ x }}{{ block.super }}{% endblock %}",
    "macdef": "{% macro m a %}M{{ a }}{% endmacro %}{% call m x %}",
    "maccall": "{% call m x %}|{% include 'mac' %}{% call m 1 %}",
    "glob": "{{ g }}{% assign g = 'local' %}{{ g }}{{ eg }}{% assign eg = 1 %}",
    "tern": "{{ 'T' if x else 'F' }}{% if a contains 1 %}1{% endif %}{{ x | default: 'd' }}",
    "trans": "{% translate count: x %}one{% plural %}many {{ count }}{% endtranslate %}{{ 'm' | t }}",
    # one parsed template whose data selects which of two macro definitions a call binds to
    # lexer/parser state: sources that end inside whitespace control or an unclosed construct, followed by
    # sources that begin with whitespace
    "lexA": "a {%- if x -%} b {%- endif -%}",
    "lexB": "  lead {{ x }} tail  ",
    "lexC": "{{ x -}}",
    "lexD": "\n\n {{ x }}\n",
    "lexE": "{% comment %}unclosed {{ x }}",
    "lexF": "{% raw %}unclosed {{ x }}",
    "lexG": "  {% if x %}  y",
    # node-level buffers: a capture that is aborted half way (filter error, break) in one render
    "capErr": "{% capture s %}A{{ x | divided_by: z0 }}B{% endcapture %}[{{ s }}]",
    "capBrk": "{% for i in a %}{% capture s %}<{{ i }}{% if i == z0 %}{% break %}{% endif %}>{% endcapture %}[{{ s }}]{% endfor %}",
    "capInc": "{% capture s %}A{% include 'nosuch' %}B{% endcapture %}[{{ s }}]{% capture s %}C{% endcapture %}[{{ s }}]",
    "macsel": "{% if x %}{% macro m a, b: 'B' %}<{{ a }}:{{ b }}>{% endmacro %}{% else %}{% macro m b, a: 'A' %}<{{ a }}:{{ b }}>{% endmacro %}{% endif %}{% call m 'one' %}",
    "withsel": "{% if x %}{% with v: 1 %}{{ v }}{% endwith %}{% else %}{% with v: 2, w: 3 %}{{ v }}{{ w }}{% endwith %}{% endif %}{% cycle x: 'a', 'b' %}",
}
# string filters applied (under autoescape) to equal text with and without the safe mark
STR_FILTERS = ["append: 'k'", "base64_decode", "base64_encode", "base64_url_safe_decode", "base64_url_safe_encode",
               "capitalize", "downcase", "escape", "escape_once", "escapejs", "lstrip", "newline_to_br", "prepend: 'k'",
               "remove: 'a'", "remove_first: 'a'", "remove_last: 'a'", "replace: 'a', 'z'", "replace_first: 'a', 'z'",
               "replace_last: 'a', 'z'", "rstrip", "slice: 1, 3", "split: ' ' | join: '-'", "squish", "strip",
               "strip_html", "strip_newlines", "truncate: 4", "truncatewords: 1", "upcase", "url_decode", "url_encode",
               "default: 'd'", "first", "last", "size", "json", "t", "safe", "reverse", "join: ','", "concat: x | join: ''"]
# every filter applied to x / a with a second operand z: outputs for equal numbers of different type
NUM_FILTERS = ["abs", "at_least", "at_most", "ceil", "divided_by", "floor", "minus", "modulo", "plus", "round", "times",
               "sum", "sort", "sort_numeric", "uniq", "first", "last", "join", "size", "json", "default", "append",
               "date", "slice", "truncate", "compact", "reverse", "concat", "index", "map", "where"]
for _i, _f in enumerate(STR_FILTERS):
    TEMPLATES[f"sf_{_i}"] = "{{ x | %s }}" % _f
for _f in NUM_FILTERS:
    # one filter application per template: an error in one form must not mask the other
    TEMPLATES["nx_" + _f] = "{{ x | %s }}" % _f
    TEMPLATES["nz_" + _f] = "{{ x | %s: z }}" % _f
    TEMPLATES["na_" + _f] = "{{ a | %s }}" % _f
    TEMPLATES["nb_" + _f] = "{{ a | %s: z }}" % _f

# families: (name, [(template id, data id, env id)])  env ids: "E" plain caching-dict env, "A" autoescape env
FAMILIES: dict[str, list[tuple[str, str, str]]] = {
    "date": [("date", d, e) for d in ("i1", "bT", "f1", "s1", "dUTC", "dP1", "dM5", "dNaive", "sDate") for e in ("E",)]
            + [("date", "dUTC", "A"), ("date", "dP1", "A"), ("dateY", "i1", "E"), ("dateY", "dP1", "E")],
    "stateful": [("cycle", "E", "E"), ("incr", "E", "E"), ("incr", "L", "E"), ("ifch", "i1", "E"), ("ifch", "s1", "E"),
                 ("cont", "L", "E"), ("contOnly", "L", "E"), ("render", "i1", "E"), ("include", "L", "E")],
    "lists": [("sort", "L", "E"), ("rev", "L", "E"), ("uniq", "L", "E"), ("map", "L", "E"), ("asg", "L", "E"),
              ("flat", "L", "E"), ("sort", "L2", "E"), ("map", "L2", "E"), ("asg", "L2", "E"), ("flat", "L2", "A")],
    "partials": [("render", "i1", "E"), ("render", "s1", "A"), ("include", "L", "E"), ("extends", "i1", "E"),
                 ("extends", "s1", "E"), ("leafdirect", "i1", "E"), ("macdef", "i1", "E"), ("maccall", "s1", "E"),
                 ("glob", "E", "E"), ("glob", "i1", "A"), ("tern", "L", "E"), ("trans", "i1", "E"), ("trans", "L", "A"),
                 ("macsel", "m_t", "E"), ("macsel", "m_f", "E"), ("withsel", "m_t", "E"), ("withsel", "m_f", "E")],
}
for _i in range(len(STR_FILTERS)):
    FAMILIES[f"num:sf_{_i}"] = [(f"sf_{_i}", d, e) for d in ("t_plain", "t_safe", "t_plain2", "t_safe2") for e in ("A",)] + \
                               [(f"sf_{_i}", "t_plain", "E"), (f"sf_{_i}", "t_safe", "E")]
FAMILIES["lexer"] = [(t, "i1", e) for t in ("lexA", "lexB", "lexC", "lexD", "lexG") for e in ("E",)] + \
                    [("lexE", "i1", "X"), ("lexF", "i1", "X"), ("lexB", "i1", "X"), ("lexA", "i1", "X")]
FAMILIES["capture"] = [("capErr", "z_bad", "E"), ("capErr", "z_ok", "E"), ("capBrk", "z_ok", "E"), ("capBrk", "z_none", "E"),
                       ("capInc", "i1", "E"), ("capErr", "z_bad", "X"), ("capErr", "z_ok", "X"), ("capInc", "i1", "X")]
# one small family per filter: the same template with inputs that compare equal but differ in type
for _f in NUM_FILTERS:
    for _t in ("nx_", "nz_", "na_", "nb_"):
        FAMILIES["num:" + _t + _f] = [(_t + _f, d, "E") for d in ("n_i", "n_f", "n_b", "n_s")]


def all_actions() -> list[tuple[str, str, str]]:
    seen: list[tuple[str, str, str]] = []
    for fam, acts in FAMILIES.items():
        if fam.startswith("num:"):
            continue  # the per-filter numeric families are explored within the family only
        for a in acts:
            if a not in seen:
                seen.append(a)
    return seen


FLAGS = {"ternary_expressions": True, "logical_not_operator": True, "logical_parentheses": True}


class HistoryRunner:
    """Executes one history inside the current (pristine, forked) process."""

    def __init__(self) -> None:
        import liquid
        from mc import util as U

        self.U = U
        self.data = make_data()
        self.envs = {
            "E": U.make_env(flags=FLAGS, loader=liquid.CachingDictLoader(dict(PARTIALS)), extra=True,
                            globals={"eg": "EG", "g": "G"}),
            "A": U.make_env(flags=FLAGS, loader=liquid.CachingDictLoader(dict(PARTIALS)), extra=True, autoescape=True,
                            globals={"eg": "EG", "g": "G"}),
            "X": U.make_env(flags=FLAGS, loader=liquid.CachingDictLoader(dict(PARTIALS)), extra=True,
                            tolerance=liquid.Mode.LAX, globals={"eg": "EG", "g": "G"}),
        }
        self.templates: dict[tuple[str, str], Any] = {}

    def template(self, tid: str, eid: str) -> Any:
        key = (tid, eid)
        if key not in self.templates:
            self.templates[key] = self.U.outcome(lambda: self.envs[eid].from_string(TEMPLATES[tid], name=tid))
        return self.templates[key]

    def fingerprint(self, t: Any) -> str:
        def walk(node: Any, depth: int = 0) -> Iterator[str]:
            yield f"{depth}:{type(node).__name__}:{getattr(getattr(node, 'token', None), 'start_index', '')}"
            kids = getattr(node, "children", None)
            if callable(kids):
                try:
                    for c in kids():
                        yield from walk(c, depth + 1)
                except Exception:  # noqa: BLE001
                    yield "children-raised"

        parts = [str(t)]
        for n in t.nodes:
            parts.extend(walk(n))
        return "\n".join(parts)

    def step(self, act: tuple[str, str, str]) -> dict[str, Any]:
        tid, did, eid = act
        U = self.U
        pt = self.template(tid, eid)
        if not pt.ok:
            return {"out": ["parse-" + pt[0], pt.error_class], "data_same": True, "tpl_same": True, "env_globals_same": True}
        t = pt.value
        data = self.data[did]
        before = U.deep_snapshot(data)
        ids_before = [id(v) for v in data.values()]
        fp_before = self.fingerprint(t)
        genv_before = U.deep_snapshot(dict(self.envs[eid].globals))
        out = U.render(t, data)
        return {
            "out": list(out.kind()),
            "data_same": U.deep_snapshot(data) == before and [id(v) for v in data.values()] == ids_before,
            "tpl_same": self.fingerprint(t) == fp_before,
            "env_globals_same": U.deep_snapshot(dict(self.envs[eid].globals)) == genv_before,
        }


def _in_child(fn: Any) -> Any:
    """Run ``fn`` in a forked child of this (never-rendered) process and return its pickled result."""
    r, w = os.pipe()
    pid = os.fork()
    if pid == 0:
        code = 0
        try:
            os.close(r)
            try:
                payload = pickle.dumps(("ok", fn()))
            except BaseException as e:  # noqa: BLE001
                import traceback

                payload = pickle.dumps(("harness-error", traceback.format_exc() + repr(e)))
            with os.fdopen(w, "wb") as fd:
                fd.write(payload)
        except BaseException:  # noqa: BLE001
            code = 1
        finally:
            os._exit(code)
    os.close(w)
    with os.fdopen(r, "rb") as fd:
        blob = fd.read()
    os.waitpid(pid, 0)
    status, val = pickle.loads(blob)
    if status != "ok":
        raise RuntimeError(f"child failed: {val}")
    return val


def run_sequence(histories: list[list[tuple[str, str, str]]]) -> list[list[dict[str, Any]]]:
    """Execute several histories one after the other IN THIS PROCESS: each gets fresh environments, loaders,
    parsed templates and data (a new HistoryRunner) but process-wide state is deliberately not reset, so the
    whole sequence is itself one long history of the process."""
    out = []
    for h in histories:
        runner = HistoryRunner()
        out.append([runner.step(tuple(a)) for a in h])  # type: ignore[arg-type]
    return out


def run_in_child(history: list[tuple[str, str, str]]) -> list[dict[str, Any]]:
    return _in_child(lambda: run_sequence([history]))[0]


def run_sequence_in_child(histories: list[list[tuple[str, str, str]]]) -> list[list[dict[str, Any]]]:
    return _in_child(lambda: run_sequence(histories))


_PRISTINE: dict[tuple[str, str, str], Any] = {}


def pristine(act: tuple[str, str, str]) -> Any:
    if act not in _PRISTINE:
        _PRISTINE[act] = run_in_child([act])[0]["out"]
    return _PRISTINE[act]


def judge(history: list[tuple[str, str, str]], recs: list[dict[str, Any]]) -> list[dict[str, Any]]:
    viols = []
    for i, (act, rec) in enumerate(zip(history, recs)):
        case = {"history": [list(a) for a in history[: i + 1]]}
        prior = [list(a) for a in history[:i]]
        if rec["out"] != pristine(act):
            viols.append({
                "signature": {"clause": "history-independence", "template": act[0], "data": act[1],
                              "after_templates": sorted({a[0] for a in history[:i]})},
                "what": f"render {act} after {prior} gives {rec['out']!r}; as the first render of a fresh process it gives {pristine(act)!r}",
                "case": case})
        if not rec["data_same"]:
            viols.append({"signature": {"clause": "data-not-modified", "template": act[0], "data": act[1]},
                          "what": f"render {act} (after {prior}) modified the data passed to it", "case": case})
        if not rec["tpl_same"]:
            viols.append({"signature": {"clause": "template-not-modified", "template": act[0]},
                          "what": f"render {act} (after {prior}) modified the parsed template", "case": case})
        if not rec["env_globals_same"]:
            viols.append({"signature": {"clause": "environment-globals-not-modified", "template": act[0]},
                          "what": f"render {act} (after {prior}) modified the environment's globals", "case": case})
    return viols


# ---- histories over the template constructors ------------------------------------------------------------------
# liquid.Template / liquid.parse build templates on process-wide implicit environments; Environment.from_string
# builds them on an environment the caller keeps.  A history creates up to CTOR_DEPTH template objects (all are
# KEPT) and renders every kept object after every creation and once more at the end, so a constructor that hands
# the same object, the same globals or the same parse to a later caller shows on the earlier objects.
CTOR_SRC = {
    "g": "{{ g }}{{ h }}|{{ x }}",
    "a": "{% assign g = x %}{{ g }}{{ h }}{% increment h %}",
    "i": "{% if g %}{{ g | upcase }}{% else %}none{% endif %}<{{ x }}>",
}
CTOR_GLOBALS: dict[str, Any] = {"none": None, "A": {"g": "ga"}, "B": {"g": "gb", "h": "hb"}}
CTOR_OPTS: dict[str, dict[str, Any]] = {"T": {}, "Tauto": {"autoescape": True}, "Textra": {"extra": True}}
CTOR_DATA: dict[str, dict[str, Any]] = {"d0": {"x": 1}, "d1": {"x": "<2>", "h": "dh"}}
CTOR_DEPTH = 3


def ctor_ops() -> list[tuple[str, str, str]]:
    ops = [(c, s, g) for c in (*CTOR_OPTS, "from_string") for s in CTOR_SRC for g in CTOR_GLOBALS]
    ops += [("parse", s, "none") for s in CTOR_SRC]
    return ops


class CtorRunner:
    def __init__(self) -> None:
        import liquid

        self.liquid = liquid
        self.env = liquid.Environment(globals={"eg": "EG"})
        self.objs: list[Any] = []

    def create(self, op: tuple[str, str, str]) -> None:
        c, s, g = op
        src = CTOR_SRC[s]
        gl = CTOR_GLOBALS[g]
        gl = dict(gl) if gl is not None else None  # every caller passes its own mapping
        if c == "parse":
            t = self.liquid.parse(src)
        elif c == "from_string":
            t = self.env.from_string(src, globals=gl)
        else:
            t = self.liquid.Template(src, globals=gl, **CTOR_OPTS[c])
        self.objs.append(t)

    def render(self, k: int, d: str) -> list[Any]:
        from mc import util as U

        return list(U.render(self.objs[k], dict(CTOR_DATA[d])).kind())


def ctor_history(ops: list[tuple[str, str, str]]) -> list[tuple[int, str, list[Any]]]:
    """Returns [(object index, data id, output)] for the render schedule of this creation history."""
    r = CtorRunner()
    obs = []
    for n, op in enumerate(ops):
        r.create(tuple(op))  # type: ignore[arg-type]
        for k in range(n, -1, -1):  # newest first, then every earlier object again
            obs.append((k, "d0", r.render(k, "d0")))
    for k in range(len(ops)):
        obs.append((k, "d1", r.render(k, "d1")))
    return obs


def ctor_pristine_table() -> dict[str, Any]:
    """(op, data) -> output when that is the only template ever created and rendered in the process."""
    tab = {}
    for op in ctor_ops():
        for d in CTOR_DATA:
            def one(op: Any = op, d: str = d) -> Any:
                r = CtorRunner()
                r.create(op)
                return r.render(0, d)
            tab["/".join(op) + "@" + d] = _in_child(one)
    return tab


class C17(Check):
    id = "C17"
    level = "model_checking"
    rule = (
        "Every history (sequence of render actions sharing environments, parsed templates, caching loaders and data "
        "objects) of length <= 2 over the whole action alphabet and of length <= D within each collision family "
        "(date memo, stateful tags, list filters, partials/macros/inheritance) is executed in a child forked from a "
        "never-rendered process; after every render: output equals the action's fresh-process output, data snapshot "
        "and identity unchanged, template fingerprint unchanged, environment globals unchanged. states = history "
        "prefixes executed, transitions = renders. Non-trivial = history of length >= 2. Constructor histories: every sequence of <= 3 "
        "(4 in thorough, same source) template creations over liquid.Template (3 option sets), liquid.parse and "
        "Environment.from_string x 3 sources x 3 globals mappings, all objects kept; every kept object is rendered "
        "after every creation and again at the end; each output must equal that of the same creation + render as "
        "the only activity of a fresh process."
    )
    assumptions = [
        "the current time (now/today) is excluded from the alphabet",
        "fork() gives an exact copy of a process that has never rendered; pristine outputs are computed the same way",
    ]

    def depth(self, tier: str) -> int:
        return 3 if tier == "quick" else 4

    def bounds(self, tier: str) -> dict[str, Any]:
        return {"all_actions_depth": 2, "family_depth": self.depth(tier), "actions": len(all_actions()),
                "ctor_ops": len(ctor_ops()), "ctor_depth": CTOR_DEPTH if tier == "quick" else CTOR_DEPTH + 1,
                "families": {k: len(v) for k, v in FAMILIES.items()}}

    def shards(self, tier: str) -> list[Any]:
        sh: list[Any] = []
        acts = all_actions()
        # fresh-process outputs, one forked child per action, computed once here (the runner process has
        # rendered nothing) and shipped with every shard
        table = [(a, pristine(a)) for a in acts]
        for a in acts:
            sh.append(("pair", a, table))
        d = self.depth(tier)
        for fam, facts in FAMILIES.items():
            if fam.startswith("num:"):
                continue
            for a in facts:
                sh.append(("fam", fam, d, [a], table))
        # numeric-equality families: one shard per filter pair of templates; pristine outputs for these are
        # computed by the shard itself in ONE forked child per action batch (see run_shard)
        nums = sorted(f for f in FAMILIES if f.startswith("num:"))
        for i in range(0, len(nums), 8):
            sh.append(("num", nums[i : i + 8], table))
        # generic: every program of the shared corpus rendered twice on the SAME parsed template with two
        # different data sets (node-level memoisation keyed without the data shows here)
        for i in range(16):
            sh.append(("prog", i, 16, table))
        # constructor histories: one shard per first creation
        ctab = ctor_pristine_table()
        for op in ctor_ops():
            sh.append(("ctor", op, ctab, table))
        return sh

    def histories(self, shard: Any) -> Iterator[list[tuple[str, str, str]]]:
        if shard[0] == "pair":
            a = tuple(shard[1])
            yield [a]  # type: ignore[list-item]
            for b in all_actions():
                yield [a, b]  # type: ignore[list-item]
            return
        _, fam, d, prefix = shard[:4]
        facts = FAMILIES[fam]
        prefix = [tuple(x) for x in prefix]
        for n in range(1, d - len(prefix) + 1):
            for rest in itertools.product(facts, repeat=n):
                yield prefix + list(rest)

    def run_shard(self, shard: Any, tier: str) -> Result:
        res = Result()
        for a, out in shard[-1]:
            _PRISTINE.setdefault(tuple(a), out)
        if shard[0] == "prog":
            self.run_programs(shard[1], shard[2], tier, res)
            return res
        if shard[0] == "ctor":
            self.run_ctor(tuple(shard[1]), shard[2], tier, res)
            return res
        if shard[0] == "num":
            # pristine outputs of the numeric actions: each action alone in its own process state; to keep the
            # number of forks small the actions of one (filter, data) are batched per DATA SET (four children),
            # each child running one action per filter template on a fresh HistoryRunner -- different filters do
            # not share inputs that could collide with themselves within a batch, and any cross-filter effect
            # would itself be a history dependence that the family histories then expose as a mismatch.
            fams = shard[1]
            dkeys = sorted({(a[1], a[2]) for f in fams for a in FAMILIES[f]})
            for d in dkeys:
                batch = [[a] for f in fams for a in FAMILIES[f] if (a[1], a[2]) == d]
                outs = run_sequence_in_child(batch)
                for h, recs in zip(batch, outs):
                    _PRISTINE.setdefault(tuple(h[0]), recs[0]["out"])
            hists = []
            for f in fams:
                facts = FAMILIES[f]
                for n in (2,) if tier == "quick" else (2, 3):
                    for combo in itertools.product(facts, repeat=n):
                        hists.append(list(combo))
        else:
            hists = list(self.histories(shard))
        # one forked child per shard: its histories run back to back in one process (no reset in between)
        all_recs = run_sequence_in_child(hists)
        minimised = 0
        for k, (hist, recs) in enumerate(zip(hists, all_recs)):
            res.states += 1
            res.transitions += len(hist)
            res.traces += 1
            res.max_depth = max(res.max_depth, len(hist))
            viols = judge(hist, recs)
            res.case(nontrivial=hist if len(hist) >= 2 else None,
                     outcome="viol" if viols else recs[-1]["out"][0] + ":" + str(recs[-1]["out"][1])[:12],
                     sample={"history": [list(a) for a in hist], "outputs": [r["out"] for r in recs]} if len(hist) == 3 else None)
            if not viols:
                continue
            # minimise: does the history alone (fresh process) already show it?  (forks are costly: only
            # the first few violating histories of a shard are minimised, the rest are reported with the
            # shard's whole sequence as reproducer)
            minimised += 1
            alone = judge(hist, run_in_child(hist)) if minimised <= 3 else []
            if alone:
                for v in alone:
                    res.violation(v["signature"], v["what"], v["case"])
            else:
                seq = [[list(a) for a in h] for h in hists[: k + 1]]
                for v in viols:
                    res.violation(v["signature"] | {"needs_earlier_histories_in_process": True},
                                  v["what"] + f" -- only after the {k} earlier histories of this process (state outside "
                                  "environments/templates/loaders/data survives)", {"sequence": seq})
        res.fixpoint = False
        return res

    def run_ctor(self, first: Any, ctab: dict[str, Any], tier: str, res: Result) -> None:
        ops = ctor_ops()
        depth = CTOR_DEPTH if tier == "quick" else CTOR_DEPTH + 1
        hists = [[first, *rest] for n in range(0, depth) for rest in itertools.product(ops, repeat=n)]
        if tier != "quick":
            # depth 4 only within one source (the collision class): 2 further creations over all ops, then 1 same-source
            hists = [h for h in hists if len(h) < 4 or h[3][1] == h[0][1]]
        all_obs = _in_child(lambda: [ctor_history(h) for h in hists])
        for h, obs in zip(hists, all_obs):
            res.states += 1
            res.transitions += len(obs)
            res.traces += 1
            res.max_depth = max(res.max_depth, len(h))
            bad = [(k, d, out) for k, d, out in obs if out != ctab["/".join(h[k]) + "@" + d]]
            res.case(nontrivial=["ctor", *h] if len(h) >= 2 else None, outcome="ctor:viol" if bad else "ctor:ok")
            if bad:
                k, d, out = bad[0]
                later = sorted({"/".join(o) for o in h if o != h[k]})[:1]
                res.violation({"clause": "history-independence", "family": "constructors", "ctor": h[k][0],
                               "same_source_elsewhere": any(o[1] == h[k][1] for j, o in enumerate(h) if j != k)},
                              f"templates created by {h}: rendering object #{k} ({h[k]}) with {d} gives {out!r}; when it is "
                              f"the only template created in the process it gives {ctab['/'.join(h[k]) + '@' + d]!r} (other: {later})",
                              {"ctor_history": [list(o) for o in h]})

    def run_programs(self, i: int, n: int, tier: str, res: Result) -> None:
        """Same parsed template, two data sets in a row; the second output must equal its own first-render output."""
        from mc.gen import programs as G

        progs = [p for j, p in enumerate(G.programs(2, 2, level="core" if tier == "quick" else "full", extra=True))
                 if j % n == i]

        def work() -> list[Any]:
            from mc import util as U

            env = U.make_env(flags=FLAGS, templates=G.PARTIALS, extra=True)
            out = []
            for p in progs:
                pt = U.parse(env, p.source)
                if not pt.ok:
                    out.append(None)
                    continue
                firsts = {}
                for lab, data in G.DATA_SETS:
                    t1 = env.from_string(p.source)
                    firsts[lab] = U.render(t1, dict(data)).kind()
                bad = []
                for (la, da), (lb, db) in itertools.permutations(G.DATA_SETS, 2):
                    t = env.from_string(p.source)
                    U.render(t, dict(da))
                    second = U.render(t, dict(db)).kind()
                    if second != firsts[lb]:
                        bad.append((la, lb, second, firsts[lb]))
                out.append(bad)
            return out

        results = _in_child(work)
        for p, bad in zip(progs, results):
            if bad is None:
                continue
            res.states += 1
            res.transitions += 60
            res.traces += 30
            res.case(nontrivial=["prog", p.source], outcome="prog:viol" if bad else "prog:ok", n=30)
            for la, lb, got, want in bad[:1]:
                res.violation({"clause": "history-independence", "family": "same-template-two-data", "construct": p.source[:80]},
                              f"template {p.source!r}: rendered with {la} and then with {lb} on the same parsed template gives "
                              f"{got!r}; a fresh parse rendered with {lb} gives {want!r}",
                              {"program": p.source, "first": la, "second": lb})

    def replay(self, case: Any) -> list[dict[str, Any]]:
        if "ctor_history" in case:
            h = [tuple(o) for o in case["ctor_history"]]
            obs = _in_child(lambda: ctor_history(h))  # type: ignore[arg-type]
            ctab = ctor_pristine_table()
            return [{"signature": {"clause": "history-independence", "family": "constructors"},
                     "what": f"object #{k} {h[k]} with {d}: {out!r} != {ctab['/'.join(h[k]) + '@' + d]!r}"}
                    for k, d, out in obs if out != ctab["/".join(h[k]) + "@" + d]]
        if "program" in case:
            from mc import util as U
            from mc.gen import programs as G

            def work() -> Any:
                env = U.make_env(flags=FLAGS, templates=G.PARTIALS, extra=True)
                data = dict(G.DATA_SETS)
                want = U.render(env.from_string(case["program"]), dict(data[case["second"]])).kind()
                t = env.from_string(case["program"])
                U.render(t, dict(data[case["first"]]))
                got = U.render(t, dict(data[case["second"]])).kind()
                return got, want

            got, want = _in_child(work)
            if got != want:
                return [{"signature": {"clause": "history-independence", "family": "same-template-two-data",
                                       "construct": case["program"][:80]},
                         "what": f"{case['program']!r}: second render {got!r} != fresh {want!r}", "case": case}]
            return []
        if "sequence" in case:
            seq = [[tuple(a) for a in h] for h in case["sequence"]]
            recs = run_sequence_in_child(seq)  # type: ignore[arg-type]
            return judge(seq[-1], recs[-1])  # type: ignore[arg-type]
        hist = [tuple(a) for a in case["history"]]
        return judge(hist, run_in_child(hist))  # type: ignore[arg-type]


CHECK = C17()
_ = json
