"""C02 — only Liquid errors escape parsing and rendering.

Exhaustive sweeps (no sampling) on the real engine:
  F  filter sweep: every registered filter x left value x positional argument tuples
     (arity 0..2 full product over the pool, arity 3 with one non-default argument),
     values passed as render variables and (arity <= 1) as literals; keyword arguments;
  T  tag-argument sweep: templates with holes l, m, n filled from the pool;
  M  malformed sources M(k) and single-deviation mutants of generated programs,
     parsed (and rendered when they parse) in STRICT, WARN and LAX;
  G  the shared program corpus x data sets x modes.
Oracle: outcome is a returned str or an exception derived from LiquidError.
"""

from __future__ import annotations

import itertools
import warnings
from typing import Any
from typing import Iterator

from mc import util as U
from mc.core import Check
from mc.core import Result
from mc.gen import programs as G

ALL_FLAGS = {
    "logical_not_operator": True, "logical_parentheses": True, "ternary_expressions": True,
    "string_sequences": False, "string_first_and_last": False,
}
ALT_FLAGS = {
    "logical_not_operator": True, "logical_parentheses": True, "ternary_expressions": True,
    "string_sequences": True, "string_first_and_last": True, "shorthand_indexes": True,
    "keyword_assignment": True,
}

TAG_TEMPLATES: list[str] = [
    "{% for i in l limit: m offset: n %}{{ i }}{% endfor %}",
    "{% for i in l limit: m reversed %}{{ i }}{{ forloop.rindex }}{% else %}E{% endfor %}",
    "{% for i in l offset: m %}{{ i }}{% endfor %}{% for i in l offset: continue limit: n %}{{ i }}{% endfor %}",
    "{% tablerow i in l cols: m limit: n %}{{ i }}{% endtablerow %}",
    "{% tablerow i in l cols: m offset: n %}{{ tablerowloop.col }}{% endtablerow %}",
    "{% for i in (l..m) %}{{ i }}{% endfor %}",
    "{{ (l..m) | join: '-' }}",
    "{% assign r = (l..m) %}{{ r | size }}{{ r.first }}",
    "{% cycle l, m %}{% cycle l, m %}",
    "{% cycle l: m, n %}{% cycle l: m, n %}",
    "{% case l %}{% when m %}A{% when n, 1 %}B{% else %}C{% endcase %}",
    "{% increment l %}{% decrement l %}{{ l }}",
    "{% include l %}",
    "{% render 'p' for l as v %}",
    "{% include 'p' with l %}",
    "{% include 'p' for l %}",
    "{% render 'p' with l as v %}",
    "{% render 'p', v: l, x: m %}",
    "{% include 'p', v: l, x: m %}",
    "{{ l[m] }}",
    "{{ l[m][n] }}",
    "{{ l.size }}{{ l.first }}{{ l.last }}",
    "{{ l[m].a }}{{ l.a[m] }}",
    "{{ [l] }}{{ [l][m] }}",
    "{% assign z = l %}{{ z }}{% capture w %}{{ m }}{% endcapture %}{{ w }}{% echo n %}",
    "{% with a: l, b: m %}{{ a }}{{ b }}{% endwith %}",
    "{% macro f a, b: m %}{{ a }}{{ b }}{{ args }}{{ kwargs }}{% endmacro %}{% call f l, n, k: m %}",
    "{{ l if m else n }}",
    "{{ l | default: m if n else l || append: m }}",
    "{% unless l %}U{% else %}{{ m }}{% endunless %}",
    "{% if l %}{{ m }}{% elsif n %}N{% endif %}",
    "{% if l and m or n %}Y{% endif %}",
    "{% if not l and (m or n) %}Y{% endif %}",
    "{% if l contains m %}Y{% else %}N{% endif %}",
    "{{ l | default: m, allow_false: n }}",
    "{% translate count: l, v: m %}a {{ v }}{% plural %}b {{ count }}{% endtranslate %}",
    "{% translate context: l, count: m %}a{% plural %}b{% endtranslate %}",
    "{% translate v: l %}100%{{ v }} %% {{ v }}% ( %s %d %({{ v }}){% endtranslate %}",
    "{% translate count: l, v: m %}%{{ v }}{% plural %}{{ count }}%{{ v }}%%{% endtranslate %}",
    "{{ '100% %(v)s %% %s %(' | t: v: l }}{{ l | t }}{{ '%' | ngettext: '%%(v)s', m }}",
    "{% ifchanged %}{{ l }}{% endifchanged %}{% ifchanged %}{{ m }}{% endifchanged %}",
    "{% liquid assign q = l | plus: m\necho q\nfor i in n\necho i\nendfor %}",
    "{% for i in l %}{% for j in m %}{{ forloop.parentloop.index }}{{ j }}{% endfor %}{% endfor %}",
    "{% for i in l %}{% if i == m %}{% break %}{% endif %}{{ i }}{% continue %}x{% endfor %}",
    "{{ l | t: v: m, count: n }}",
    "{{ l | ngettext: m, n }}",
    "{{ l | date: m }}",
    "{{ l | slice: m, n }}",
    "{{ l | replace: m, n }}",
    "{{ l | truncate: m, n }}",
    "{{ l | truncatewords: m, n }}",
    "{{ l | where: m, n }}",
    "{{ l | sum: m }}{{ l | map: m }}{{ l | sort: m }}{{ l | uniq: m }}",
    "{{ l | find: m, n }}{{ l | has: m, n }}{{ l | reject: m, n }}",
    "{{ l | round: m }}{{ l | divided_by: m }}{{ l | modulo: m }}",
    "{{ l | json: m }}{{ l | index: m }}",
]
# found with tools/line_cov.py: library lines that no case of any check executed
TAG_TEMPLATES += [
    "{{ l | date: '%s' }}{{ 'now' | date: m }}{{ 'today' | date: '%s' }}{{ l | date: '%-d %e %:z %N %Q' }}",
    "{{ '<script>a</script>b<style>c</style><SCRIPT>' | append: l | strip_html }}{{ l | prepend: '<style>' | strip_html }}",
    "{% for i in l %}{{ forloop.nosuch }}{{ forloop[m] }}{% endfor %}{% tablerow i in l %}{{ tablerowloop.nosuch }}{{ tablerowloop[m] }}{% endtablerow %}",
    "{{ l.0.1 }}{{ m.1.0.a }}{{ l.0.1.2.a }}{{ a.0.1 }}{{ a.1. }}",
    "{{ l | nosuchfilter: m }}{{ l | nosuchfilter }}{% assign q = l | nosuch: k: m %}{{ q }}",
    "{% assign locale = l %}{% assign input_locale = m %}{{ n | currency }}{{ n | decimal }}{{ n | unit: 'length-meter' }}{{ n | datetime }}",
    "{% assign timezone = l %}{% assign input_timezone = m %}{{ n | datetime }}{{ 'March 1 2020' | datetime }}{{ '2020-01-01T00:00:00' | datetime: format: n }}",
    "{% assign currency_code = l %}{% assign currency_format = m %}{{ n | currency }}{{ n | money }}{{ 5 | currency: group_separator: l }}",
    "{% assign datetime_format = l %}{% assign decimal_format = m %}{{ n | datetime }}{{ n | decimal }}{{ 3.5 | decimal: group_separator: m }}",
    "{% assign decimal_quantization = l %}{% assign unit_length = m %}{% assign unit_format = n %}{{ 2 | decimal }}{{ 2 | unit: 'length-meter' }}{{ 2 | unit: 'length-meter', denominator: l, denominator_unit: m }}",
    "{% block b %}{{ block.nosuch }}{{ block[l] }}{{ block.super }}{% endblock %}",
    "{{ l | sort_natural }}{{ l | sort_natural: m }}{{ l | default: m, allow_false: true }}{{ l | default: m, allow_false: false }}",
]
# malformed sources aimed at error branches of the expression parsers that the generated corpus did not reach
EXTRA_MALFORMED: list[str] = [
    "{% if (x %}a{% endif %}", "{% if x) %}a{% endif %}", "{% if (x and (a) %}a{% endif %}", "{% if ((x) %}a{% endif %}",
    "{% if () %}a{% endif %}", "{% if x and %}a{% endif %}", "{% if x == %}a{% endif %}", "{% if == x %}a{% endif %}",
    "{% if x or or a %}a{% endif %}", "{% if not %}a{% endif %}", "{% if x contains %}a{% endif %}", "{% if (x) (a) %}a{% endif %}",
    "{% if x %}a{% else x %}b{% endif %}", "{% unless x %}a{% else x %}b{% endunless %}", "{% if x %}a{% else if a %}b{% endif %}",
    "{% if x %}a{% elsif %}b{% endif %}", "{% if x %}a{% else %}b{% else %}c{% endif %}", "{% if x %}a{% else %}b{% elsif a %}c{% endif %}",
    "{% doc %}unclosed", "{% doc %}x{% enddoc %}", "{% doc %}{% doc %}x{% enddoc %}", "{% doc %}{{ x }}{% if %}{% enddoc %}{{ x }}",
    "{% assign 1 = 2 %}", "{% assign 'q' = 2 %}", "{% assign x.y = 1 %}", "{% assign x[0] = 1 %}", "{% assign = 1 %}", "{% assign q %}",
    "{% capture 'q' %}a{% endcapture %}", "{% capture 1 %}a{% endcapture %}", "{% capture x.y %}a{% endcapture %}", "{% capture %}a{% endcapture %}",
    "{% for 1 in a %}{% endfor %}", "{% for 'i' in a %}{% endfor %}", "{% for i.j in a %}{% endfor %}", "{% for i a %}{% endfor %}",
    "{% for i in %}{% endfor %}", "{% for i in a limit %}{% endfor %}", "{% for i in a limit: %}{% endfor %}", "{% for i in a cols: 2 %}{% endfor %}",
    "{% tablerow 1 in a %}{% endtablerow %}", "{% tablerow i in a cols %}{% endtablerow %}", "{% tablerow i in a reversed %}{{ i }}{% endtablerow %}",
    "{% macro 'm' %}{% endmacro %}", "{% macro 1 %}{% endmacro %}", "{% macro m a.b %}{% endmacro %}", "{% macro m 1 %}{% endmacro %}",
    "{% macro m a: %}{% endmacro %}", "{% call 5 %}", "{% call 'm' %}", "{% call m a.b: 1 %}", "{% call %}", "{% call m 1, %}{{ x }}",
    "{% with 1: 2 %}{% endwith %}", "{% with a.b: 2 %}{% endwith %}", "{% with a %}{% endwith %}", "{% with a: %}{% endwith %}",
    "{% liquid\n\n   \n echo x\n\n%}", "{% liquid echo x\n  # c\n\n#\necho a %}", "{% liquid\nif\necho x\nendif %}", "{% liquid %}",
    "{% translate %}{{ x | upcase }}{% endtranslate %}", "{% translate %}{{ 'lit' }}{% endtranslate %}", "{% translate %}{{ 1 }}{% endtranslate %}",
    "{% translate %}{% if x %}a{% endif %}{% endtranslate %}", "{% translate %}a{% plural %}{{ x.y }}{% endtranslate %}",
    "{% translate %}{{ x.y }}{% plural %}b{% endtranslate %}", "{% translate %}a{% plural %}b{% plural %}c{% endtranslate %}",
    "{% translate 1: 2 %}a{% endtranslate %}", "{% translate x %}a{% endtranslate %}", "{% translate %}{{ x[0] }}{% endtranslate %}",
    "{{ x.0.1 }}", "{{ a.0.1.2 }}", "{{ a.1. }}", "{{ a..b }}", "{{ a.[0] }}", "{{ a[0 }}", "{{ a[] }}", "{{ a['b }}", "{{ .a }}", "{{ a. }}",
    "{{ a[1.5] }}", "{{ a[(1..2)] }}", "{{ a[b c] }}", "{{ [a][ }}", "{{ a.b.'c' }}", "{{ a.-1 }}", "{{ a[-1].-1 }}",
    "{{ x | }}", "{{ x | | upcase }}", "{{ x | upcase: }}", "{{ x | append: , }}", "{{ x | append: 'a' 'b' }}", "{{ x | append: k: }}",
    "{{ x | 1 }}", "{{ x | 'f' }}", "{{ x | f.g }}", "{{ x if }}", "{{ x if a else }}", "{{ x if a else a || }}", "{{ x || upcase }}",
    "{{ (1..) }}", "{{ (..2) }}", "{{ (1..2 }}", "{{ (1...2) }}", "{{ (a..b..c) }}", "{{ ('a'..'c') }}", "{{ (1.5..2.5) }}", "{{ ((1..2)..3) }}",
    "{% cycle %}", "{% cycle : 1 %}", "{% cycle 'g': %}", "{% cycle 1 2 %}", "{% cycle 1, %}", "{% case %}{% endcase %}", "{% case x %}{% when %}a{% endcase %}",
    "{% case x %}{% when 1, %}a{% endcase %}", "{% case x %}{% when 1 or %}a{% endcase %}", "{% case x %}junk{% when 1 %}a{% endcase %}",
    "{% include %}", "{% include 'p' with %}", "{% include 'p' for %}", "{% include 'p' as %}", "{% include 'p', %}", "{% include 'p', v %}",
    "{% render %}", "{% render p %}", "{% render 'p' with %}", "{% render 'p' for a as %}", "{% render 'p' for a as 1 %}", "{% render 'p', v: %}",
    "{% extends %}", "{% extends p %}", "{% extends 'base' 'x' %}", "{% block %}{% endblock %}", "{% block 1 %}{% endblock %}", "{% block a b %}{% endblock %}",
    "{% block a %}{% endblock b %}", "{% block a required x %}{% endblock %}", "{% increment %}", "{% increment 1 %}", "{% increment a.b %}", "{% decrement 'x' %}",
    "{% echo %}", "{% echo x | %}", "{% ifchanged x %}a{% endifchanged %}", "{% raw x %}a{% endraw %}", "{% comment x %}a{% endcomment %}", "{% snippet %}a{% endsnippet %}",
    "{% snippet 's' %}a{% endsnippet %}", "{% snippet s t %}a{% endsnippet %}", "{% snippet s %}a", "{% # %}", "{% #x\n y %}", "{%- -%}", "{{- -}}", "{{ }}", "{% %}",
]
EXTRA_MALFORMED = [m.replace("\\n", "\n") for m in EXTRA_MALFORMED]
OPS = ["==", "!=", "<>", "<", ">", "<=", ">=", "contains"]
for _op in OPS:
    TAG_TEMPLATES.append("{% if l " + _op + " m %}Y{% else %}N{% endif %}")
    TAG_TEMPLATES.append("{% unless l " + _op + " m %}Y{% endunless %}")
TAG_TEMPLATES.append("{% if l == empty %}E{% endif %}{% if l == blank %}B{% endif %}{% if empty == l %}e{% endif %}")


def holes(src: str) -> list[str]:
    import re

    return [h for h in ("l", "m", "n") if re.search(rf"(?<![\w'\"]){h}(?![\w'\"])", src)]


_ENVS: dict[tuple[str, str], Any] = {}


def env_for(which: str, mode: str = "strict") -> Any:
    env = _ENVS.get((which, mode))
    if env is None:
        if which == "D":
            env = U.make_env(templates=G.PARTIALS, tolerance=U.MODES[mode])
        elif which == "S":
            # unknown filters are skipped instead of being an error; shorthand indexes on
            env = U.make_env(flags=ALT_FLAGS, templates=G.PARTIALS, extra=True, tolerance=U.MODES[mode],
                             strict_filters=False)
        else:
            flags = ALL_FLAGS if which == "A" else ALT_FLAGS
            env = U.make_env(flags=flags, templates=G.PARTIALS, extra=True, tolerance=U.MODES[mode],
                             autoescape=(which == "B"))
        _ENVS[(which, mode)] = env
    return env


def frame_sig(o: U.Outcome, construct: str) -> dict[str, Any]:
    sig = {"clause": "only-liquid-errors", "exc": o.error_class, "site": o.where, "construct": construct}
    if o.error_class == "ValueError" and "integer string conversion" in str(o[2]):
        # CPython's int<->str digit limit (sys.get_int_max_str_digits) hit while stringifying a giant int
        sig["feature"] = "int-max-str-digits"
    return sig


def quiet(fn: Any) -> Any:
    with warnings.catch_warnings():
        warnings.simplefilter("ignore")
        return fn()


class C02(Check):
    id = "C02"
    level = "exploration"
    rule = (
        "F: every registered filter (extra=True) x left value x argument tuples from the value pool "
        "(arity 0,1,2 full product; arity 3 with <=1 non-default arg; literals for arity<=1; keyword args); "
        "T: every tag template with holes l,m,n filled by the full product of the pool; M: every malformed "
        "source of <=k fragments and every single-deviation mutant of the generated programs, in STRICT/WARN/LAX, "
        "rendered when it parses; G: shared program corpus x data sets x modes. A case is non-trivial when the "
        "engine got past parsing and evaluated the construct (render ran), identified by (family, construct, value labels)."
    )
    assumptions = [
        "value pool mc.util.V_QUICK / V_FULL is the alphabet; values outside it are not covered",
        "now/today and the current time are excluded",
    ]

    def bounds(self, tier: str) -> dict[str, Any]:
        return {
            "pool": len(U.pool(tier)),
            "filter_arity": "0..2 full, 3 with one non-default",
            "malformed_k": 4 if tier == "quick" else 5,
            "programs": "n<=2 core menu" if tier == "quick" else "n<=2 full+extra menu, n<=3 core (depth 2)",
        }

    # ------------------------------------------------------------------
    def shards(self, tier: str) -> list[Any]:
        sh: list[Any] = []
        env = env_for("A")
        names = sorted(env.filters)
        for nm in names:
            sh.append(("F", nm))
        for i in range(len(TAG_TEMPLATES)):
            sh.append(("T", i))
        k = 4 if tier == "quick" else 5
        nfr = len(G.FRAGMENTS)
        # malformed: shard by first fragment (and second for the deepest level)
        for f0 in range(nfr):
            sh.append(("M", k, f0))
        for i in range(4):
            sh.append(("MX", i, 4))
        nprog = 16 if tier == "quick" else 64
        for i in range(nprog):
            sh.append(("G", i, nprog))
        return sh

    def run_shard(self, shard: Any, tier: str) -> Result:
        res = Result()
        kind = shard[0]
        if kind == "F":
            self.run_filter(shard[1], tier, res)
        elif kind == "T":
            self.run_tag(shard[1], tier, res)
        elif kind == "M":
            self.run_malformed(shard[1], shard[2], tier, res)
        elif kind == "MX":
            self.run_malformed(0, 0, tier, res, sources=[m for j, m in enumerate(self.extra_malformed()) if j % shard[2] == shard[1]])
        else:
            self.run_programs(shard[1], shard[2], tier, res)
        return res

    # ------------------------------------------------------------------
    def check_render(self, res: Result, env_key: str, mode: str, src: str, data: dict[str, Any], labels: Any,
                     family: str, construct: str, tpl: Any = None) -> None:
        if tpl is None:
            p = quiet(lambda: U.parse(env_for(env_key, mode), src))
            if not p.ok:
                res.case(outcome=f"{family}:parse:{p[0]}:{p.error_class}")
                if p.is_other_error:
                    res.violation(frame_sig(p, construct) | {"phase": "parse"},
                                  f"parse of {src!r} in {mode} raised {p.error_class}: {p[2]} at {p.where}",
                                  {"family": family, "env": env_key, "mode": mode, "source": src, "data": None})
                return
            tpl = p.value
        r = quiet(lambda: U.render(tpl, data))
        res.case(nontrivial=[family, construct, labels, env_key, mode],
                 outcome=f"{family}:{'ok' if r.ok else r[0] + ':' + str(r.error_class)}")
        if r.is_other_error:
            res.violation(frame_sig(r, construct) | {"phase": "render"},
                          f"render of {src!r} with {labels} in {mode} raised {r.error_class}: {r[2]} at {r.where}",
                          {"family": family, "env": env_key, "mode": mode, "source": src,
                           "data": encode_data(data)})
        elif r.ok and not isinstance(r.value, str):
            res.violation({"clause": "returns-str", "construct": construct},
                          f"render of {src!r} returned {type(r.value).__name__}",
                          {"family": family, "env": env_key, "mode": mode, "source": src, "data": encode_data(data)})

    def run_filter(self, name: str, tier: str, res: Result) -> None:
        pool = U.pool(tier)
        construct = f"filter:{name}"
        for env_key in ("A", "B"):
            env = env_for(env_key)
            # variables
            srcs = {
                0: "{{ l | %s }}" % name,
                1: "{{ l | %s: m }}" % name,
                2: "{{ l | %s: m, n }}" % name,
                3: "{{ l | %s: m, n, o }}" % name,
            }
            tpls = {}
            for ar, src in srcs.items():
                p = U.parse(env, src)
                if p.ok:
                    tpls[ar] = p.value
                elif p.is_other_error:
                    res.violation(frame_sig(p, construct) | {"phase": "parse"}, f"parse {src!r}: {p.error_class}",
                                  {"family": "F", "env": env_key, "mode": "strict", "source": src, "data": None})
            for (ll, lv) in pool:
                d0 = U.data_with("l", lv)
                if 0 in tpls:
                    self.check_render(res, env_key, "strict", srcs[0], d0, [ll], "F", construct, tpls[0])
                for (ml, mv) in pool:
                    d1 = U.data_with("m", mv, d0)
                    if 1 in tpls:
                        self.check_render(res, env_key, "strict", srcs[1], d1, [ll, ml], "F", construct, tpls[1])
                    if env_key == "B" and tier == "quick":
                        continue
                    for (nl, nv) in pool:
                        d2 = U.data_with("n", nv, d1)
                        if 2 in tpls:
                            self.check_render(res, env_key, "strict", srcs[2], d2, [ll, ml, nl], "F", construct,
                                              tpls[2])
                # arity 3: one non-default argument position at a time, the others 1 / "a"
                if env_key == "A" and 3 in tpls:
                    for base in (1, "a"):
                        for pos in ("m", "n", "o"):
                            for (vl, vv) in pool:
                                d3 = dict(d0, m=base, n=base, o=base)
                                if vv is U.MISSING:
                                    d3.pop(pos, None)
                                else:
                                    d3[pos] = vv
                                self.check_render(res, env_key, "strict", srcs[3], d3, [ll, repr(base), pos, vl], "F",
                                                  construct, tpls[3])
            # keyword arguments
            for kw in ("allow_false", "zz", "count", "context", "v", "format", "group_separator", "currency_code",
                       "length", "denominator_unit", "input_format"):
                src = "{{ l | %s: %s: m }}" % (name, kw)
                src2 = "{{ l | %s: n, %s: m }}" % (name, kw)
                for s in (src, src2):
                    p = U.parse(env, s)
                    if not p.ok:
                        continue
                    sub = pool if kw in ("allow_false", "count", "format") else pool[:8]
                    for (ll, lv) in sub:
                        for (ml, mv) in sub:
                            d = U.data_with("m", mv, U.data_with("l", lv, {"n": 1}))
                            self.check_render(res, env_key, "strict", s, d, [ll, kw, ml], "F", construct, p.value)
            # literals (arity 0 and 1)
            if env_key == "A":
                lits = [(lab, U.liquid_literal(v)) for lab, v in pool]
                lits = [(lab, s) for lab, s in lits if s is not None]
                lits += [("f_1.0", "1.0"), ("f_-0.5", "-0.5"), ("r_var", "(1..l)"), ("s_dq", '"a"'), ("empty", "empty"),
                         ("blank", "blank"), ("i_big", "9" * 40), ("f_big", "1" + "0" * 400 + ".5")]
                for (ll, ls) in lits:
                    self.check_render(res, env_key, "strict", "{{ %s | %s }}" % (ls, name), {"l": 3}, ["lit", ll], "F",
                                      construct)
                    for (ml, ms) in lits:
                        self.check_render(res, env_key, "strict", "{{ %s | %s: %s }}" % (ls, name, ms), {"l": 3},
                                          ["lit", ll, ml], "F", construct)

    def run_tag(self, idx: int, tier: str, res: Result) -> None:
        src = TAG_TEMPLATES[idx]
        pool = U.pool(tier)
        hs = holes(src)
        construct = f"tag-template:{idx}"
        for env_key in ("A", "B", "S"):
            for mode in ("strict", "lax"):
                if mode == "lax" and env_key == "B":
                    continue
                if env_key == "S" and "nosuch" not in src and ".0.1" not in src:
                    continue  # strict_filters=False only matters where an unknown filter is applied
                env = env_for(env_key, mode)
                p = quiet(lambda: U.parse(env, src))
                if not p.ok:
                    if p.is_other_error:
                        res.violation(frame_sig(p, construct) | {"phase": "parse"}, f"parse {src!r}: {p.error_class}",
                                      {"family": "T", "env": env_key, "mode": mode, "source": src, "data": None})
                    res.count("tag_template_rejected_by_parser")
                    continue
                for combo in itertools.product(pool, repeat=len(hs)):
                    data: dict[str, Any] = {"x": 1, "a": [1, 2]}
                    for h, (_, v) in zip(hs, combo):
                        if v is not U.MISSING:
                            data[h] = v
                    self.check_render(res, env_key, mode, src, data, [c[0] for c in combo], "T", construct, p.value)

    def malformed_sources(self, k: int, f0: int) -> Iterator[str]:
        fr = G.FRAGMENTS
        first = fr[f0]
        yield first
        for n in range(1, k):
            for combo in itertools.product(fr, repeat=n):
                yield first + " " + " ".join(combo)

    def extra_malformed(self) -> list[str]:
        """Each aimed source alone, followed by valid text, inside a block, and inside a {% liquid %} tag."""
        out: list[str] = []
        for m in EXTRA_MALFORMED:
            out += [m, m + "{{ x }}tail", "{% if x %}" + m + "{% endif %}after", "{% for i in a %}" + m + "{% endfor %}"]
            if m.startswith("{% ") and m.endswith(" %}") and m.count("{%") == 1 and "\n" not in m:
                out.append("{% liquid " + m[3:-3] + "\necho x %}")
        return out

    def run_malformed(self, k: int, f0: int, tier: str, res: Result, sources: Any = None) -> None:
        envs = {(e, m): env_for(e, m) for e in ("A",) for m in ("strict", "warn", "lax")}
        envs[("D", "strict")] = env_for("D", "strict")
        envs[("D", "lax")] = env_for("D", "lax")
        if sources is not None:
            envs[("B", "strict")] = env_for("B", "strict")
            envs[("S", "strict")] = env_for("S", "strict")
            envs[("S", "lax")] = env_for("S", "lax")
        data = dict(G.DATA_SETS[0][1])
        for src in (sources if sources is not None else self.malformed_sources(k, f0)):
            for (ek, mode), env in envs.items():
                p = quiet(lambda: U.parse(env, src))
                if not p.ok:
                    res.case(outcome=f"M:parse:{p[0]}:{p.error_class}")
                    if p.is_other_error:
                        res.violation(frame_sig(p, "malformed") | {"phase": "parse"},
                                      f"parse of {src!r} in {mode} raised {p.error_class}: {p[2]} at {p.where}",
                                      {"family": "M", "env": ek, "mode": mode, "source": src, "data": None})
                    continue
                self.check_render(res, ek, mode, src, data, ["D0"], "M", "malformed:" + mode, p.value)

    def run_programs(self, i: int, n: int, tier: str, res: Result) -> None:
        if tier == "quick":
            progs: Iterator[Any] = G.programs(2, 2, level="core", extra=False)
        else:
            progs = itertools.chain(G.programs(2, 2, level="full", extra=True), G._progs_exact(3, 2, *G.menus("core")))
        for j, prog in enumerate(progs):
            if j % n != i:
                continue
            for mode in ("strict", "lax"):
                env = env_for("A", mode)
                p = quiet(lambda: U.parse(env, prog.source))
                if not p.ok:
                    if p.is_other_error:
                        res.violation(frame_sig(p, "program") | {"phase": "parse"},
                                      f"parse of {prog.source!r}: {p.error_class}",
                                      {"family": "G", "env": "A", "mode": mode, "source": prog.source, "data": None})
                    continue
                for lab, data in G.DATA_SETS:
                    self.check_render(res, "A", mode, prog.source, data, [lab], "G", "program", p.value)
            if tier == "quick" and prog.size > 1:
                continue
            # single-deviation mutants, strict + lax, one data set
            for mk, msrc in G.token_mutants(prog.source):
                for mode in ("strict", "lax"):
                    self.check_render(res, "A", mode, msrc, G.DATA_SETS[0][1], ["D0", mk], "Gm", "program-mutant")

    # ------------------------------------------------------------------
    def replay(self, case: Any) -> list[dict[str, Any]]:
        res = Result()
        data = decode_data(case["data"]) if case.get("data") is not None else {}
        self.check_render(res, case["env"], case["mode"], case["source"], data, ["replay"], case["family"], "replay")
        return res.violations


def encode_data(d: dict[str, Any]) -> Any:
    def enc(v: Any) -> Any:
        if isinstance(v, float):
            return {"__float__": repr(v)}
        if isinstance(v, int) and not isinstance(v, bool) and v.bit_length() > 10000:
            return {"__int_hex__": hex(v)}
        if isinstance(v, range):
            return {"__range__": [v.start, v.stop]}
        if isinstance(v, list):
            return [enc(x) for x in v]
        if isinstance(v, dict):
            return {"__dict__": [[k, enc(x)] for k, x in v.items()]}
        return v

    return {k: enc(v) for k, v in d.items()}


def decode_data(d: Any) -> dict[str, Any]:
    def dec(v: Any) -> Any:
        if isinstance(v, dict):
            if "__float__" in v:
                return float(v["__float__"])
            if "__int_hex__" in v:
                return int(v["__int_hex__"], 16)
            if "__range__" in v:
                return range(*v["__range__"])
            if "__dict__" in v:
                return {k: dec(x) for k, x in v["__dict__"]}
        if isinstance(v, list):
            return [dec(x) for x in v]
        return v

    return {k: dec(v) for k, v in d.items()}


CHECK = C02()
