"""C23 — caching loaders are transparent.

Explicit-state breadth-first search over request histories on REAL caching loaders, each
paired with its non-caching counterpart as the specification.  A state is reached by
replaying its (shortest) history on a fresh loader; every transition executes one real
request (sync or async, with namespace / globals) or one source edit and compares what
the caching loader returns with what a fresh non-caching loader over the same sources
returns at that moment.  Canonical state (for merging) is an abstract LRU model kept by
the harness: cache keys in LRU order with (version, how it was loaded, globals last
applied) plus the source versions.  Merging can only cost coverage, never soundness: the
oracle is purely observational.

Thorough adds schedule exploration of two concurrent get_template_async requests on the
file-system loader (manually driven coroutines over a fake running loop whose
run_in_executor parks the call; every interleaving of "execute parked call" / "resume
task" steps and of one injected edit up to a deviation bound).
"""

from __future__ import annotations

import asyncio
import os
import warnings
import shutil
import tempfile
from collections import deque
from typing import Any
from typing import Optional

import liquid
from liquid.exceptions import TemplateNotFoundError
from liquid.loader import BaseLoader
from liquid.loader import TemplateSource
from mc import util as U
from mc.core import Check
from mc.core import Result
from mc.core import jdumps

NSKEY = "uid"
BASE_MTIME = 1_500_000_000


def body(path: str, ver: int) -> str:
    return f"<{path}@{ver}|g={{{{ g }}}}|eg={{{{ eg }}}}|x={{{{ x }}}}>"


# ---------------------------------------------------------------------------
# stores: the mutable "source of truth" shared by the caching loader and its spec
# ---------------------------------------------------------------------------
class Store:
    """Versioned sources. paths -> version (int).  Backed by dicts or by files."""

    def __init__(self, kind: str, sandbox: Optional[str]):
        self.kind = kind
        self.sandbox = sandbox
        self.versions: dict[str, int] = {}
        self.d1: dict[str, str] = {}
        self.d2: dict[str, str] = {}
        if kind == "fs":
            assert sandbox
            self.root1 = os.path.join(sandbox, "r1")
            self.root2 = os.path.join(sandbox, "r2")
            for r in (self.root1, self.root2):
                shutil.rmtree(r, ignore_errors=True)
                os.makedirs(r)
        paths = ["a", "b"]
        if kind == "ns":
            paths = ["a", "b", "u1/a", "u1/b", "u2/a", "u2/b", "0/a", "0/b"]
        if kind == "choicens":
            # a namespace-aware first child that only knows namespace u1, in front of a shared fallback
            paths = ["u1/a", "u1/b"]
            self.d2["a"] = "<fallback-a>"
            self.d2["b"] = "<fallback-b>"
        for p in paths:
            self.write(p, 0)
        if kind == "choice":
            # overlapping name: "a" lives in both (the first wins), "b" only in the second
            self.d2["a"] = "<second-a>"
            self.d2["b"] = self.d1.pop("b")
        if kind == "fs":
            self._write_file(self.root2, "a", "<second-a>", 0)

    def _write_file(self, root: str, path: str, text: str, ver: int, backwards: bool = False) -> None:
        full = os.path.join(root, path)
        os.makedirs(os.path.dirname(full), exist_ok=True)
        with open(full, "w", encoding="utf-8") as fd:
            fd.write(text)
        t = BASE_MTIME + (-10 if backwards else 10) * ver
        os.utime(full, (t, t))

    def write(self, path: str, ver: int, backwards: bool = False) -> None:
        self.versions[path] = ver
        text = body(path, ver)
        if self.kind == "fs":
            self._write_file(self.root1, path, text, ver, backwards)
        elif self.kind == "choice" and path in self.d2 and path not in self.d1:
            self.d2[path] = text
        else:
            self.d1[path] = text

    def edit(self, path: str, backwards: bool = False) -> None:
        self.write(path, self.versions[path] + 1, backwards)


class NSLoader(BaseLoader):
    """A namespace-aware, versioned loader (the documented way to combine with the mixin)."""

    def __init__(self, store: Store):
        super().__init__()
        self.store = store

    def get_source(self, env: Any, template_name: str, *, context: Any = None, **kwargs: object) -> TemplateSource:
        ns = kwargs.get(NSKEY)
        if ns is None and context is not None:
            ns = context.globals.get(NSKEY)
        # a namespace is any value that was given, including falsy ones such as the integer 0
        path = f"{ns}/{template_name}" if ns is not None else template_name
        try:
            text = self.store.d1[path]
        except KeyError as err:
            raise TemplateNotFoundError(template_name) from err
        ver = self.store.versions[path]
        store = self.store
        return TemplateSource(text, path, lambda: store.versions.get(path) == ver)


def _caching_ns_class() -> Any:
    from liquid.builtin.loaders.mixins import CachingLoaderMixin

    class CachingNSLoader(CachingLoaderMixin, NSLoader):  # type: ignore[misc]
        def __init__(self, store: Store, *, auto_reload: bool = True, namespace_key: str = "", capacity: int = 300,
                     thread_safe: bool = False):
            super().__init__(auto_reload=auto_reload, namespace_key=namespace_key, capacity=capacity,
                             thread_safe=thread_safe)
            NSLoader.__init__(self, store)

    return CachingNSLoader


def make_loaders(cfg: dict[str, Any], store: Store) -> tuple[Any, Any]:
    """(caching loader under test, factory of a fresh non-caching specification loader)."""
    kw = {"auto_reload": cfg["auto_reload"], "namespace_key": NSKEY if cfg["namespaced"] else "",
          "capacity": cfg["capacity"]}
    if cfg["kind"] == "ns" and cfg["capacity"] in (2, 3):
        kw["thread_safe"] = True  # the mixin's lock-protected cache (same observable behaviour required)
    k = cfg["kind"]
    if k == "dict":
        return liquid.CachingDictLoader(store.d1, **kw), lambda: liquid.DictLoader(store.d1)
    if k == "choice":
        mk = lambda: [liquid.DictLoader(store.d1), liquid.DictLoader(store.d2)]  # noqa: E731
        return liquid.CachingChoiceLoader(mk(), **kw), lambda: liquid.ChoiceLoader(mk())
    if k == "fs":
        roots = [store.root1, store.root2]
        return liquid.CachingFileSystemLoader(roots, **kw), lambda: liquid.FileSystemLoader(roots)
    if k == "ns":
        return _caching_ns_class()(store, **kw), lambda: NSLoader(store)
    if k == "choicens":
        mk2 = lambda: [NSLoader(store), liquid.DictLoader(store.d2)]  # noqa: E731
        return liquid.CachingChoiceLoader(mk2(), **kw), lambda: liquid.ChoiceLoader(mk2())
    raise AssertionError(k)


ENV_GLOBALS = {"eg": "E"}
_ENV_POOL: dict[Any, Any] = {}


def pooled_env(role: str, loader: Any, with_globals: bool = True) -> Any:
    """An Environment is configuration only (no caches besides its loader): reuse one per role."""
    env = _ENV_POOL.get((role, with_globals))
    if env is None:
        env = U.make_env(loader=loader, globals=dict(ENV_GLOBALS) if with_globals else None)
        _ENV_POOL[(role, with_globals)] = env
    env.loader = loader
    return env


def env_has_globals(cfg: dict[str, Any]) -> bool:
    """Environment globals are populated in the even-capacity configurations and empty in the odd ones
    (an empty mapping is falsy, which is exactly the kind of shortcut a cache-hit path can trip over)."""
    return cfg["capacity"] % 2 == 0


class World:
    """One real caching loader + environment + store, built by replaying a history."""

    def __init__(self, cfg: dict[str, Any], sandbox: Optional[str]):
        self.cfg = cfg
        self.store = Store(cfg["kind"], sandbox)
        self.loader, self.spec_factory = make_loaders(cfg, self.store)
        self.env = pooled_env("test", self.loader, env_has_globals(cfg))
        self.ever: dict[str, set[int]] = {}

    def request_kwargs(self, env: Any, act: dict[str, Any]) -> dict[str, Any]:
        kw: dict[str, Any] = {}
        if act.get("globals") is not None:
            kw["globals"] = dict(act["globals"])
        ns = act.get("ns")
        if ns == "kw:0":
            kw[NSKEY] = 0  # a falsy namespace value (e.g. user id 0)
        elif ns and ns.startswith("kw:"):
            kw[NSKEY] = ns[3:]
        elif ns == "ctxnokey":
            # a render context that does not define the namespace variable: the request names no namespace
            kw["context"] = liquid.RenderContext(env.from_string(""), globals={"other": "u1"})
        elif ns and ns.startswith("ctx:"):
            kw["context"] = liquid.RenderContext(env.from_string(""), globals={NSKEY: ns[4:]})
        elif ns and ns.startswith("both:"):
            # keyword argument AND a render context naming another namespace: the argument wins (documented)
            kw[NSKEY] = ns[5:]
            kw["context"] = liquid.RenderContext(env.from_string(""), globals={NSKEY: "u2"})
        return kw

    def observe(self, t: Any) -> Any:
        return {"name": t.name, "source": str(t), "render": U.render(t, {"x": 5}).kind()}

    def do_request(self, env: Any, act: dict[str, Any]) -> U.Outcome:
        kw = self.request_kwargs(env, act)
        if act["how"] == "async":
            runner = U.run_coro_loop if self.cfg["kind"] == "fs" else U.run_coro
            return U.outcome(lambda: self.observe(runner(env.get_template_async(act["name"], **kw))))
        return U.outcome(lambda: self.observe(env.get_template(act["name"], **kw)))

    def spec_request(self, act: dict[str, Any]) -> U.Outcome:
        env = pooled_env("spec", self.spec_factory(), env_has_globals(self.cfg))
        return self.do_request(env, dict(act, how="sync"))

    def apply(self, act: dict[str, Any], *, replaying: bool = False) -> Optional[tuple[U.Outcome, U.Outcome]]:
        if act["op"] == "edit":
            self.store.edit(act["path"], bool(act.get("backwards")))
            return None
        self.env.loader = self.loader
        got = self.do_request(self.env, act)
        if replaying:
            return None
        want = self.spec_request(act)
        return got, want


# ---------------------------------------------------------------------------
# abstract LRU model used ONLY to canonicalise states (never as an oracle)
# ---------------------------------------------------------------------------
def cache_key(cfg: dict[str, Any], act: dict[str, Any]) -> str:
    ns = act.get("ns")
    if cfg["namespaced"] and ns and ns != "ctxnokey":
        return f"{ns.split(':', 1)[1]}/{act['name']}"
    return act["name"]


def source_path(cfg: dict[str, Any], act: dict[str, Any]) -> str:
    ns = act.get("ns")
    if ns == "ctxnokey":
        return act["name"]
    if cfg["kind"] == "ns" and ns:
        return f"{ns.split(':', 1)[1]}/{act['name']}"
    if cfg["kind"] == "choicens" and ns and ns.split(":", 1)[1] == "u1" and act["name"] in ("a", "b"):
        return f"u1/{act['name']}"
    return act["name"]


def model_step(cfg: dict[str, Any], state: Any, act: dict[str, Any]) -> Any:
    versions, cache = dict(state[0]), list(state[1])
    if act["op"] == "edit":
        versions[act["path"]] = versions.get(act["path"], 0) + 1
        if act.get("backwards"):
            # an edit that moved the modification time backwards leads to a different state (its
            # consequences must be explored from a history that contains it)
            versions[act["path"] + "#older-mtime"] = versions.get(act["path"] + "#older-mtime", 0) + 1
        return (tuple(sorted(versions.items())), tuple(cache))
    key = cache_key(cfg, act)
    path = source_path(cfg, act)
    if path not in versions:  # missing template: cache untouched
        return state
    g = jdumps(act.get("globals"))
    entry = next((e for e in cache if e[0] == key), None)
    if entry is not None:
        cache.remove(entry)
        ver, how = entry[1], entry[2]
        if cfg["auto_reload"] and ver != versions[path]:
            ver, how = versions[path], act["how"]
        cache.append((key, ver, how, g))
    else:
        if len(cache) >= cfg["capacity"]:
            cache.pop(0)
        cache.append((key, versions[path], act["how"], g))
    return (tuple(sorted(versions.items())), tuple(cache))


def init_state(cfg: dict[str, Any]) -> Any:
    paths = ["a", "b"] + (["u1/a", "u1/b", "u2/a", "u2/b", "0/a", "0/b"] if cfg["kind"] == "ns" else [])
    if cfg["kind"] == "choicens":
        paths += ["u1/a", "u1/b"]
    return (tuple(sorted((p, 0) for p in paths)), ())


# ---------------------------------------------------------------------------
def alphabet(cfg: dict[str, Any], tier: str) -> list[dict[str, Any]]:
    names = ["a", "b"]
    lean = tier == "quick" and (cfg["capacity"] >= 3 or cfg["kind"] == "fs")
    if cfg["namespaced"]:
        nss: list[Optional[str]] = [None, "kw:u1", "ctx:u1", "both:u1", "kw:u2"]
        if cfg["capacity"] == 1 or tier != "quick":
            nss.append("ctxnokey")
        if cfg["kind"] == "ns":
            nss.append("kw:0")

        if lean:
            nss = [None, "kw:u1", "both:u1", "kw:u2"] if cfg["kind"] != "fs" else [None, "kw:u1", "both:u1"]
            if cfg["kind"] == "ns":
                nss.append("kw:0")
    else:
        # a namespace-aware loader must be given a namespace_key (documented); without one it only gets
        # requests that name no namespace.  The other loaders ignore the extra argument.
        nss = [None, "kw:u1"] if tier != "quick" and cfg["kind"] not in ("ns", "choicens") else [None]
    globs: list[Any] = [None, {"g": 1}] + ([{"g": 2}] if tier != "quick" and cfg["kind"] in ("dict", "choice") else [])
    if lean:
        globs = [None] if cfg["kind"] != "fs" else [None, {"g": 1}]
    acts: list[dict[str, Any]] = []
    for n in names:
        for ns in nss:
            for how in ("sync", "async"):
                for g in globs:
                    acts.append({"op": "get", "name": n, "ns": ns, "how": how, "globals": g})
    for how in ("sync", "async"):
        acts.append({"op": "get", "name": "missing", "ns": nss[-1], "how": how, "globals": None})
    if cfg["kind"] in ("fs", "ns"):
        acts.append({"op": "edit", "path": "a"})
        if cfg["kind"] == "fs":
            # the new content carries an OLDER modification time (restored from a backup, cp -p, rsync -t)
            acts.append({"op": "edit", "path": "a", "backwards": True})
        if cfg["kind"] == "ns" and cfg["namespaced"]:
            acts.append({"op": "edit", "path": "u1/a"})
    if cfg["kind"] == "choicens" and cfg["namespaced"]:
        acts.append({"op": "edit", "path": "u1/a"})  # the namespace-aware child exposes uptodate
    return acts


def check_request(cfg: dict[str, Any], world: World, hist: list[dict[str, Any]], act: dict[str, Any],
                  got: U.Outcome, want: U.Outcome) -> Optional[dict[str, Any]]:
    case = {"part": "bfs", "cfg": cfg, "history": hist, "action": act}
    sig_base = {"loader": cfg["kind"], "namespaced": cfg["namespaced"], "auto_reload": cfg["auto_reload"]}
    mixed = len({h["how"] for h in hist + [act] if h["op"] == "get"}) > 1
    if got.kind() == want.kind():
        return None
    if got.is_other_error or want.is_other_error:
        return {"signature": sig_base | {"clause": "non-liquid-error", "exc": got.error_class or want.error_class},
                "what": f"{cfg}: after {brief(hist)} request {brief([act])} -> {got.kind()!r}, spec -> {want.kind()!r}",
                "case": case}
    if got.ok and want.ok:
        differs = sorted(k for k in want.value if got.value[k] != want.value[k])
        # stale version of the same path is allowed when auto_reload is off
        if not cfg["auto_reload"] and differs and set(differs) <= {"source", "render"}:
            path = source_path(cfg, act)
            cur = world.store.versions.get(path, 0)
            g = (act.get("globals") or {}).get("g", "")
            for older in range(cur):
                stale_src = body(path, older)
                stale_render = f"<{path}@{older}|g={g}|eg={'E' if env_has_globals(cfg) else ''}|x=5>"
                if got.value["source"] == stale_src and got.value["render"] == ("ok", stale_render):
                    return None
        clause = "same-template"
        if "render" in differs and "source" not in differs:
            clause = "request-globals-apply"
        elif "source" in differs:
            src = got.value["source"]
            path = source_path(cfg, act)
            clause = "stale-after-edit" if src.startswith(f"<{path}@") else "wrong-template-substituted"
        return {"signature": sig_base | {"clause": clause, "differs": differs, "mixed_sync_async": mixed},
                "what": f"{cfg}: after {brief(hist)} request {brief([act])} -> {got.value}, spec -> {want.value}",
                "case": case}
    return {"signature": sig_base | {"clause": "error-vs-template", "got": "ok" if got.ok else got.error_class,
                                     "want": "ok" if want.ok else want.error_class, "mixed_sync_async": mixed,
                                     "how": act["how"], "feature": error_feature(got)},
            "what": f"{cfg}: after {brief(hist)} request {brief([act])} -> {got.kind()!r}, spec -> {want.kind()!r}",
            "case": case}


def error_feature(o: U.Outcome) -> str:
    """Discriminating feature of a failed request (keeps known-finding signatures narrow)."""
    if not o.ok and "expected a boolean from uptodate" in str(o[2]):
        return "sync-freshness-check-got-coroutine"
    return "none"


def brief(acts: list[dict[str, Any]]) -> str:
    out = []
    for a in acts:
        if a["op"] == "edit":
            out.append(f"edit({a['path']}{',older-mtime' if a.get('backwards') else ''})")
        else:
            g = "" if a.get("globals") is None else f",g={a['globals']['g']}"
            ns = "" if not a.get("ns") else f",{a['ns']}"
            out.append(f"{a['how']}:{a['name']}{ns}{g}")
    return "[" + " ; ".join(out) + "]"


def run_history(cfg: dict[str, Any], hist: list[dict[str, Any]], sandbox: Optional[str]) -> World:
    w = World(cfg, sandbox)
    for a in hist:
        w.apply(a, replaying=True)
    return w


def bfs(cfg: dict[str, Any], depth: int, tier: str, res: Result, sandbox: Optional[str],
        first: Optional[int] = None) -> None:
    """``first``: restrict the search to histories that begin with action number ``first`` (used to split an
    expensive configuration over several shards; states are then de-duplicated per shard only)."""
    acts = alphabet(cfg, tier)
    s0 = init_state(cfg)
    hist_of: dict[Any, list[dict[str, Any]]] = {s0: []}
    frontier = deque([s0])
    root_only: Optional[dict[str, Any]] = acts[first] if first is not None else None
    outcomes = set()
    while frontier:
        st = frontier.popleft()
        hist = hist_of[st]
        if len(hist) >= depth:
            continue
        for act in ([root_only] if (root_only is not None and not hist) else acts):
            w = run_history(cfg, hist, sandbox)
            r = w.apply(act)
            res.transitions += 1
            res.traces += 1
            nxt = model_step(cfg, st, act)
            bad = None
            if r is not None:
                got, want = r
                bad = check_request(cfg, w, hist, act, got, want)
                outcomes.add(got.kind()[0] if not got.ok else "ok")
                nontrivial = [cfg, hist, act] if st[1] else None  # request against a non-empty cache
                res.case(nontrivial=nontrivial, outcome=f"{cfg['kind']}:{'viol' if bad else ('ok' if got.ok else got.error_class)}")
            else:
                res.case(nontrivial=[cfg, hist, act] if st[1] else None, outcome=f"{cfg['kind']}:edit")
            if bad:
                res.violation(bad["signature"], bad["what"], bad["case"])
                continue
            if nxt not in hist_of:
                hist_of[nxt] = hist + [act]
                frontier.append(nxt)
    res.states += len(hist_of)
    res.max_depth = max(res.max_depth, max(len(h) for h in hist_of.values()))
    res.fixpoint = False if res.fixpoint is None else res.fixpoint
    if len(res.samples) < 2:
        deepest = max(hist_of.values(), key=len)
        res.samples.append({"cfg": cfg, "history": brief(deepest), "alphabet_size": len(acts), "states": len(hist_of)})


# ---------------------------------------------------------------------------
# concurrent async requests on the file-system loader (schedule exploration)
# ---------------------------------------------------------------------------
class FakeLoop:
    """Just enough of an event loop for ``asyncio.get_running_loop().run_in_executor``."""

    def __init__(self) -> None:
        self.parked: list[tuple[Any, Any, tuple[Any, ...]]] = []

    def run_in_executor(self, executor: Any, func: Any, *args: Any) -> Any:
        fut = asyncio.Future(loop=self)  # type: ignore[arg-type]
        self.parked.append((fut, func, args))
        return fut

    # what asyncio.Future needs from a loop
    def get_debug(self) -> bool:
        return False

    def call_soon(self, *a: Any, **k: Any) -> None:
        return None

    def call_exception_handler(self, ctx: Any) -> None:
        return None

    def create_future(self) -> Any:
        return asyncio.Future(loop=self)  # type: ignore[arg-type]

    def is_closed(self) -> bool:
        return False


class TaskRun:
    def __init__(self, coro: Any):
        self.coro = coro
        self.waiting: Any = None  # (fut, func, args) currently parked
        self.executed = False
        self.done = False
        self.result: Optional[U.Outcome] = None
        self.started_at = -1
        self.ended_at = -1


def concurrent_case(case: dict[str, Any], sandbox: str) -> tuple[list[dict[str, Any]], int, list[int]]:
    """Run ONE schedule (list of choice indices). Returns (violations, steps, branching per step)."""
    from asyncio import events

    cfg, prefix = case["cfg"], list(case["schedule"])
    w = World(cfg, sandbox)
    for a in case["setup"]:
        w.apply(a)
    loop = FakeLoop()
    tasks: list[TaskRun] = []
    clock = [0]
    edits_at: list[tuple[int, str]] = []

    def step_task(t: TaskRun, first: bool = False) -> None:
        events._set_running_loop(loop)  # type: ignore[attr-defined]
        try:
            before = len(loop.parked)
            try:
                t.coro.send(None)
            except StopIteration as stop:
                t.done, t.result = True, U.Outcome(("ok", w.observe(stop.value)))
                t.ended_at = clock[0]
                return
            except liquid.exceptions.LiquidError as e:
                t.done, t.result = True, U.Outcome(("liquid", type(e).__name__, str(e)[:100], None))
                t.ended_at = clock[0]
                return
            except Exception as e:  # noqa: BLE001
                t.done, t.result = True, U.Outcome(("other", type(e).__name__, str(e)[:100], U.innermost_repo_frame(e)))
                t.ended_at = clock[0]
                return
            assert len(loop.parked) == before + 1, "coroutine suspended on something that is not run_in_executor"
            t.waiting = loop.parked.pop()
            t.executed = False
        finally:
            events._set_running_loop(None)  # type: ignore[attr-defined]

    for req in case["requests"]:
        kw = w.request_kwargs(w.env, req)
        tasks.append(TaskRun(w.env.get_template_async(req["name"], **kw)))
    inject = case.get("inject")  # one edit or sync request injected at a chosen point
    injected = inject is None
    inj_result: Any = None
    choices: list[int] = []
    branching: list[int] = []
    started = [False] * len(tasks)
    while True:
        menu: list[tuple[str, int]] = []
        for i, t in enumerate(tasks):
            if t.done:
                continue
            if not started[i]:
                menu.append(("start", i))
            elif not t.executed:
                menu.append(("exec", i))
            else:
                menu.append(("resume", i))
        if not injected:
            menu.append(("inject", -1))
        if not menu:
            break
        k = len(choices)
        pick = prefix[k] if k < len(prefix) else 0
        if pick >= len(menu):
            raise RuntimeError(f"replay divergence at step {k}: {pick} of {menu}")
        choices.append(pick)
        branching.append(len(menu))
        kind, i = menu[pick]
        clock[0] += 1
        if kind == "start":
            started[i] = True
            tasks[i].started_at = clock[0]
            step_task(tasks[i])
        elif kind == "exec":
            fut, func, args = tasks[i].waiting
            try:
                fut.set_result(func(*args))
            except Exception as e:  # noqa: BLE001
                fut.set_exception(e)
            tasks[i].executed = True
        elif kind == "resume":
            step_task(tasks[i])
        else:
            injected = True
            if inject["op"] == "edit":
                w.store.edit(inject["path"])
                edits_at.append((clock[0], inject["path"]))
            else:
                inj_result = (w.do_request(w.env, inject), w.spec_request(inject))
    viols: list[dict[str, Any]] = []
    sig_base = {"loader": cfg["kind"], "namespaced": cfg["namespaced"], "auto_reload": cfg["auto_reload"],
                "part": "concurrent"}
    # oracle: each request equals the specification's answer at SOME moment of its lifetime
    for t, req in zip(tasks, case["requests"]):
        assert t.result is not None
        acceptable = []
        path = source_path(cfg, req)
        cur = w.store.versions.get(path, 0)
        my_edits = [at for (at, p) in edits_at if p == path]
        base = cur - len(my_edits)

        def ver_at(tau: int) -> int:
            return base + sum(1 for at in my_edits if at <= tau)

        # the specification's answer at ANY moment of the request's lifetime is acceptable
        candidates = set(range(ver_at(t.started_at), ver_at(t.ended_at) + 1))
        if not cfg["auto_reload"]:
            candidates |= set(range(cur + 1))
        want_now = w.spec_request(req)
        if not want_now.ok:
            acceptable.append(want_now.kind())
        else:
            g = (req.get("globals") or {}).get("g", "")
            for v in sorted(candidates):
                acceptable.append(("ok", {"name": want_now.value["name"], "source": body(path, v),
                                          "render": ("ok", f"<{path}@{v}|g={g}|eg={'E' if env_has_globals(cfg) else ''}|x=5>")}))
        if t.result.kind() not in acceptable:
            viols.append({"signature": sig_base | {"clause": "concurrent-request", "got": "ok" if t.result.ok else t.result.error_class},
                          "what": f"{cfg}: concurrent {brief(case['requests'])} inject={inject} schedule={choices}: "
                                  f"request {brief([req])} -> {t.result.kind()!r}; acceptable {acceptable!r}",
                          "case": dict(case, schedule=choices)})
    if inj_result is not None:
        got, want = inj_result
        if got.kind() != want.kind() and cfg["auto_reload"]:
            viols.append({"signature": sig_base | {"clause": "injected-sync-request", "got": "ok" if got.ok else got.error_class,
                                                   "feature": error_feature(got)},
                          "what": f"{cfg}: sync request {brief([inject])} injected into {brief(case['requests'])} "
                                  f"schedule={choices} -> {got.kind()!r}, spec {want.kind()!r}",
                          "case": dict(case, schedule=choices)})
    # afterwards the cache must be coherent: a final sync probe of every name equals the spec
    if cfg["auto_reload"]:
        for req in case["requests"]:
            probe = dict(req, how="async")  # same API as the requests themselves (mixing is explored by the injected sync request)
            got, want = w.do_request(w.env, probe), w.spec_request(probe)
            if got.kind() != want.kind():
                viols.append({"signature": sig_base | {"clause": "post-concurrency-probe", "got": "ok" if got.ok else got.error_class},
                              "what": f"{cfg}: after concurrent {brief(case['requests'])} inject={inject} schedule={choices} "
                                      f"probe {brief([probe])} -> {got.kind()!r}, spec {want.kind()!r}",
                              "case": dict(case, schedule=choices)})
                break
    return viols, len(choices), branching


def explore_concurrent(base: dict[str, Any], bound: int, res: Result, sandbox: str, cap: int = 200000) -> None:
    """All schedules with at most ``bound`` deviations from the default (always choice 0)."""
    stack: list[list[int]] = [[]]
    n = 0
    outcomes = set()
    while stack:
        prefix = stack.pop()
        case = dict(base, schedule=prefix)
        viols, steps, branching = concurrent_case(case, sandbox)
        n += 1
        res.transitions += steps
        for v in viols:
            res.violation(v["signature"], v["what"], v["case"])
        outcomes.add(len(viols))
        if n >= cap:
            res.notes.append("concurrent exploration cap hit; NOT exhaustive for that configuration")
            break
        devs = sum(1 for c in prefix if c != 0)
        if devs >= bound:
            continue
        for i in range(len(prefix), steps):
            for alt in range(1, branching[i]):
                stack.append(prefix + [0] * (i - len(prefix)) + [alt])
    res.traces += n
    res.states += n
    res.case(nontrivial=[base["cfg"], base["requests"], base.get("inject"), base["setup"]], outcome="concurrent", n=n)
    res.count("concurrent_schedules", n)
    if len(res.samples) < 2:
        res.samples.append({"concurrent": brief(base["requests"]), "inject": base.get("inject"), "schedules": n,
                            "deviation_bound": bound})


def concurrent_bases(tier: str) -> list[dict[str, Any]]:
    out = []
    for auto in (True, False):
        for namespaced in (False, True):
            cfg = {"kind": "fs", "capacity": 2 if namespaced else 1, "auto_reload": auto, "namespaced": namespaced}
            ns = "kw:u1" if namespaced else None
            ra = {"op": "get", "name": "a", "ns": ns, "how": "async", "globals": None}
            ra_g = dict(ra, globals={"g": 1})
            rb = dict(ra, name="b")
            setups: list[list[dict[str, Any]]] = [[], [dict(ra, how="async")], [dict(ra, how="sync")]]
            injects: list[Any] = [None, {"op": "edit", "path": "a"}, dict(ra, how="sync")]
            for setup in setups:
                for reqs in ([ra, ra_g], [ra, rb]):
                    for inj in injects:
                        out.append({"cfg": cfg, "setup": setup, "requests": reqs, "inject": inj})
    return out


# ---------------------------------------------------------------------------
class C23(Check):
    id = "C23"
    level = "model_checking"
    rule = (
        "BFS over request/edit histories on real CachingDictLoader, CachingChoiceLoader, CachingFileSystemLoader and "
        "CachingLoaderMixin+namespace-aware loader, and CachingChoiceLoader over [namespace-aware child knowing only "
        "namespace u1, shared DictLoader fallback]; configurations = capacity 1..4 x auto_reload x namespace_key "
        "set/unset; alphabet = get(name in {a,b,missing}, namespace by kwarg/context/none, sync|async, globals) + "
        "source edits (file rewrite with explicit mtime / version bump); every transition is executed on a fresh real "
        "loader rebuilt by replaying the shortest history and compared with a fresh non-caching loader over the same "
        "sources; states = abstract LRU contents (key, version, how loaded, globals) + source versions. "
        "Concurrent part: every schedule (<= deviation bound) of two manually driven get_template_async coroutines on "
        "the file-system loader with parked run_in_executor calls, optionally with one injected edit or sync request. "
        "Non-trivial = request against a non-empty cache / each concurrent base configuration."
    )
    assumptions = [
        "the non-caching loader over the same sources is the specification",
        "with auto_reload off a stale version of the SAME key is accepted after an edit",
        "edits are only explored for loaders whose specification exposes uptodate (file system, namespace-aware loader)",
    ]

    def depth(self, cfg: dict[str, Any], tier: str) -> int:
        if tier == "quick":
            if cfg["kind"] == "fs":
                # capacity 3-4 cannot overflow within 3 requests anyway; the file-system configurations are the
                # expensive ones (real files, explicit mtimes), so those two capacities get depth 2 in quick
                return 3 if cfg["capacity"] <= 2 else 2
            return 4
        # thorough: the full alphabet at every capacity (quick trims it for capacity >= 3 and for the file-system
        # loader); depth 5 only where the alphabet is small (no namespace key, dict-backed loaders).  The first
        # version asked for depth 5 everywhere: one namespace-aware configuration alone needs ~1.7e7 replayed
        # transitions, it did not finish in 90 minutes and was cut back to what completes.
        if cfg["kind"] == "fs":
            return 3
        return 5 if (not cfg["namespaced"] and cfg["kind"] in ("dict", "choice")) else 4

    def bounds(self, tier: str) -> dict[str, Any]:
        return {"bfs_depth": "fs: 3 (capacity 1-2) / 2 (capacity 3-4), others: 4" if tier == "quick" else "fs: 3, dict/choice without namespace key: 5, others: 4 (full alphabet at every capacity)",
                "configs": 74, "concurrent_deviation_bound": 2 if tier == "quick" else 3}

    def shards(self, tier: str) -> list[Any]:
        sh: list[Any] = []
        for kind in ("dict", "choice", "fs", "ns", "choicens"):
            for cap in (1, 2, 3, 4):
                for auto in (True, False):
                    for namespaced in (False, True):
                        if kind == "choicens" and not namespaced and cap > 1:
                            continue  # nothing namespace-related reaches it without a key: one capacity suffices
                        cfg = {"kind": kind, "capacity": cap, "auto_reload": auto, "namespaced": namespaced}
                        sh.append(("bfs", cfg))
        bases = concurrent_bases(tier)
        for i in range(0, len(bases), 3):
            sh.append(("conc", bases[i : i + 3]))
        return sh

    def run_shard(self, shard: Any, tier: str) -> Result:
        res = Result()
        warnings.simplefilter("ignore", RuntimeWarning)  # "coroutine ... was never awaited" (a symptom we report ourselves)
        sandbox = tempfile.mkdtemp(prefix="c23_")
        try:
            if shard[0] == "bfs":
                cfg = shard[1]
                bfs(cfg, self.depth(cfg, tier), tier, res, sandbox, first=shard[2] if len(shard) > 2 else None)
            else:
                for base in shard[1]:
                    explore_concurrent(base, 2 if tier == "quick" else 3, res, sandbox)
        finally:
            shutil.rmtree(sandbox, ignore_errors=True)
        return res

    def replay(self, case: Any) -> list[dict[str, Any]]:
        sandbox = tempfile.mkdtemp(prefix="c23_")
        try:
            if case.get("part") == "bfs":
                cfg = case["cfg"]
                w = run_history(cfg, case["history"], sandbox)
                r = w.apply(case["action"])
                if r is None:
                    return []
                bad = check_request(cfg, w, case["history"], case["action"], r[0], r[1])
                return [bad] if bad else []
            return concurrent_case(case, sandbox)[0]
        finally:
            shutil.rmtree(sandbox, ignore_errors=True)


CHECK = C23()
