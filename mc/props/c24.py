"""C24 — LRU caches behave as bounded least-recently-used maps.

Part A (sequential, explicit-state BFS to a fixpoint): every (state, operation) pair over
capacity+1 keys and two values is executed on a fresh real cache rebuilt by replaying the
shortest history that reaches the state; results, listings and an eviction-order probe
are compared with a list-based reference model.

Part B (threads): every interleaving, up to a preemption bound, of small programs on a
real ``ThreadSafeLRUCache`` under the controlled scheduler of ``mc.sched_threads``; the
recorded call/return history must be linearizable with respect to the reference model
and no thread may fail (other than with the KeyError the model prescribes).
"""

from __future__ import annotations

import itertools
from collections import deque
from typing import Any
from typing import Optional

from mc.core import Check
from mc.core import Result

KEYS = "abcde"
DEFAULT = "D"


# ---------------------------------------------------------------------------
# reference model: list of (key, value), least recently used first
# ---------------------------------------------------------------------------
def ref_apply(state: list[tuple[str, int]], cap: int, op: tuple[Any, ...]) -> tuple[Any, list[tuple[str, int]]]:
    st = list(state)
    kind = op[0]
    d = dict(st)
    if kind == "set":
        _, k, v = op
        if k in d:
            st = [(kk, vv) for kk, vv in st if kk != k]
        elif len(st) >= cap:
            st = st[1:]
        st.append((k, v))
        return ("ok", None), st
    if kind == "getitem":
        k = op[1]
        if k not in d:
            return ("raise", "KeyError"), st
        st = [(kk, vv) for kk, vv in st if kk != k] + [(k, d[k])]
        return ("ok", d[k]), st
    if kind in ("get", "get_d"):
        k = op[1]
        dflt = None if kind == "get" else DEFAULT
        if k not in d:
            return ("ok", dflt), st
        st = [(kk, vv) for kk, vv in st if kk != k] + [(k, d[k])]
        return ("ok", d[k]), st
    if kind == "del":
        k = op[1]
        if k not in d:
            return ("raise", "KeyError"), st
        return ("ok", None), [(kk, vv) for kk, vv in st if kk != k]
    if kind == "in":
        return ("ok", op[1] in d), st
    if kind == "len":
        return ("ok", len(st)), st
    mru = list(reversed(st))
    if kind in ("iter", "keys"):
        return ("ok", [k for k, _ in mru]), st
    if kind == "values":
        return ("ok", [v for _, v in mru]), st
    if kind == "items":
        return ("ok", [[k, v] for k, v in mru]), st
    raise AssertionError(op)


# -- the operations as executed on the real object (module-level so that their code
# -- objects can be registered as scheduling-point sources for the thread explorer)
def op_set(c: Any, k: str, v: int) -> Any:
    c[k] = v


def op_getitem(c: Any, k: str) -> Any:
    return c[k]


def op_get(c: Any, k: str) -> Any:
    return c.get(k)


def op_get_d(c: Any, k: str) -> Any:
    return c.get(k, DEFAULT)


def op_del(c: Any, k: str) -> Any:
    del c[k]


def op_in(c: Any, k: str) -> Any:
    return k in c


def op_len(c: Any) -> Any:
    return len(c)


def op_iter(c: Any) -> Any:
    return list(iter(c))


def op_keys(c: Any) -> Any:
    return list(c.keys())


def op_values(c: Any) -> Any:
    return list(c.values())


def op_items(c: Any) -> Any:
    return [list(kv) for kv in c.items()]


OPS = {
    "set": op_set, "getitem": op_getitem, "get": op_get, "get_d": op_get_d, "del": op_del,
    "in": op_in, "len": op_len, "iter": op_iter, "keys": op_keys, "values": op_values,
    "items": op_items,
}


def real_apply(c: Any, op: tuple[Any, ...]) -> Any:
    try:
        return ("ok", OPS[op[0]](c, *op[1:]))
    except KeyError:
        return ("raise", "KeyError")
    except Exception as e:  # noqa: BLE001  the outcome is what is compared
        return ("raise", type(e).__name__)


def get_class(name: str) -> Any:
    from liquid.utils import lru_cache as mod

    return getattr(mod, name)


class SelfDeadlock(Exception):
    pass


class SeqLock:
    """Stand-in for a lock in the *sequential* search: re-acquiring a non-reentrant lock
    would hang the real thing forever; here it is an observable failure."""

    def __init__(self, reentrant: bool):
        self.depth = 0
        self.reentrant = reentrant

    def acquire(self, blocking: bool = True, timeout: float = -1) -> bool:
        if self.depth and not self.reentrant:
            self.depth = 0  # let later operations of the history proceed
            raise SelfDeadlock("non-reentrant lock acquired twice by the same thread")
        self.depth += 1
        return True

    def release(self) -> None:
        if self.depth <= 0:
            raise RuntimeError("release unlocked lock")
        self.depth -= 1

    __enter__ = acquire

    def __exit__(self, *a: Any) -> None:
        if self.depth > 0:
            self.depth -= 1

    def locked(self) -> bool:
        return self.depth > 0


def swap_locks(c: Any, factory: Any) -> None:
    import threading

    real_lock_type = type(threading.Lock())
    real_rlock_type = type(threading.RLock())
    for name, val in list(vars(c).items()):
        if isinstance(val, real_lock_type):
            setattr(c, name, factory(False))
        elif isinstance(val, real_rlock_type):
            setattr(c, name, factory(True))


def build(cls_name: str, cap: int, hist: list[tuple[Any, ...]]) -> Any:
    c = get_class(cls_name)(cap)
    swap_locks(c, SeqLock)
    for op in hist:
        real_apply(c, op)
    return c


def observe(c: Any, cap: int) -> Any:
    """Destructive observation through the public API only."""
    obs: list[Any] = [real_apply(c, ("len",)), real_apply(c, ("items",))]
    for i in range(cap):
        real_apply(c, ("set", f"z{i}", 9))
        obs.append(real_apply(c, ("keys",)))
    return obs


def ref_observe(state: list[tuple[str, int]], cap: int) -> Any:
    obs: list[Any] = [ref_apply(state, cap, ("len",))[0], ref_apply(state, cap, ("items",))[0]]
    st = state
    for i in range(cap):
        _, st = ref_apply(st, cap, ("set", f"z{i}", 9))
        obs.append(ref_apply(st, cap, ("keys",))[0])
    return [list(x) for x in obs]


def norm(x: Any) -> Any:
    import json

    from mc.core import jdumps

    return json.loads(jdumps(x))


def seq_alphabet(cap: int) -> list[tuple[Any, ...]]:
    keys = KEYS[: cap + 1]
    ops: list[tuple[Any, ...]] = []
    for k in keys:
        ops += [("set", k, 0), ("set", k, 1), ("getitem", k), ("get", k), ("get_d", k), ("del", k), ("in", k)]
    ops += [("len",), ("iter",), ("keys",), ("values",), ("items",)]
    return ops


def check_transition(cls_name: str, cap: int, hist: list[tuple[Any, ...]], state: list[tuple[str, int]],
                     op: tuple[Any, ...]) -> tuple[Optional[dict[str, Any]], list[tuple[str, int]]]:
    c = build(cls_name, cap, hist)
    got = norm(real_apply(c, op))
    want, nxt = ref_apply(state, cap, op)
    want = norm(want)
    case = {"part": "sequential", "cls": cls_name, "capacity": cap, "history": hist, "op": op}
    if got != want:
        return (
            {
                "signature": {"part": "sequential", "clause": "result", "cls": cls_name, "op": op[0],
                              "got": got[0] if got[0] == "raise" else "value"},
                "what": f"{cls_name}({cap}) after {hist}: {op} returned {got}, reference model says {want}",
                "case": case,
            },
            nxt,
        )
    try:
        size = len(c)
    except Exception:  # noqa: BLE001
        size = -1
    if size > cap:
        return (
            {"signature": {"part": "sequential", "clause": "capacity", "cls": cls_name, "op": op[0]},
             "what": f"{cls_name}({cap}) holds {size} entries after {hist}+{op}", "case": case},
            nxt,
        )
    obs, robs = norm(observe(c, cap)), norm(ref_observe(nxt, cap))
    if obs != robs:
        which = "listing" if obs[:2] != robs[:2] else "eviction-order"
        return (
            {"signature": {"part": "sequential", "clause": which, "cls": cls_name, "op": op[0]},
             "what": f"{cls_name}({cap}) after {hist}+{op}: observed {obs}, reference model says {robs}",
             "case": case},
            nxt,
        )
    return None, nxt


def bfs_sequential(cls_name: str, cap: int, res: Result) -> None:
    ops = seq_alphabet(cap)
    init: tuple[tuple[str, int], ...] = ()
    hist_of: dict[Any, list[tuple[Any, ...]]] = {init: []}
    frontier = deque([init])
    depth_of = {init: 0}
    while frontier:
        st = frontier.popleft()
        hist = hist_of[st]
        for op in ops:
            res.transitions += 1
            res.traces += 1
            viol, nxt = check_transition(cls_name, cap, hist, list(st), op)
            nontrivial = None
            if len(st) >= 1:
                nontrivial = [cls_name, cap, st, op]
            res.case(nontrivial=nontrivial, outcome=f"{op[0]}:{'viol' if viol else 'ok'}")
            if viol:
                res.violation(viol["signature"], viol["what"], viol["case"])
                continue
            key = tuple(nxt)
            if key not in hist_of:
                hist_of[key] = hist + [op]
                depth_of[key] = depth_of[st] + 1
                frontier.append(key)
    res.states += len(hist_of)
    res.max_depth = max(res.max_depth, max(depth_of.values()))
    res.fixpoint = True
    if len(res.samples) < 3:
        deepest = max(hist_of.values(), key=len)
        res.samples.append({"part": "sequential", "cls": cls_name, "capacity": cap,
                            "deepest_shortest_history": deepest})


# ---------------------------------------------------------------------------
# Part B: threads
# ---------------------------------------------------------------------------
def linearizable(init: list[tuple[str, int]], cap: int, hist: list[dict[str, Any]], final_obs: Any) -> bool:
    n = len(hist)
    for a in hist:
        a["overlaps_mutator"] = any(
            b is not a and b["op"][0] in ("set", "del") and not (b["ret"] < a["inv"] or a["ret"] < b["inv"])
            for b in hist
        )
    # precedence: a before b if a.ret < b.inv
    for perm in itertools.permutations(range(n)):
        pos = {e: i for i, e in enumerate(perm)}
        ok = True
        for a in range(n):
            for b in range(n):
                if a != b and hist[a]["ret"] < hist[b]["inv"] and pos[a] > pos[b]:
                    ok = False
                    break
            if not ok:
                break
        if not ok:
            continue
        st = list(init)
        for e in perm:
            want, st = ref_apply(st, cap, tuple(hist[e]["op"]))
            if hist[e]["op"][0] == "len" and hist[e].get("overlaps_mutator"):
                # The statement only promises "holds at most its capacity" for the size; a
                # size read that overlaps a concurrent insertion/deletion may observe the
                # moment between eviction and store.  Exactness is demanded only when the
                # read is ordered (in real time) with respect to every mutator.
                r = hist[e]["result"]
                if not (r[0] == "ok" and isinstance(r[1], int) and 0 <= r[1] <= cap):
                    ok = False
                    break
                continue
            if norm(want) != hist[e]["result"]:
                ok = False
                break
        if ok and norm([ref_apply(st, cap, ("len",))[0], ref_apply(st, cap, ("items",))[0]]) == final_obs:
            return True
    return False


def thread_programs(tier: str) -> list[dict[str, Any]]:
    """The driver configurations (each explored exhaustively up to its bound)."""
    progs: list[dict[str, Any]] = []
    a1: list[tuple[Any, ...]] = [
        ("set", "a", 1), ("set", "z", 1), ("set", "y", 1), ("getitem", "a"), ("get", "a"), ("del", "a"),
        ("in", "a"), ("keys",), ("values",), ("items",), ("iter",), ("len",),
    ]
    inits: list[tuple[int, list[tuple[str, int]]]] = [
        (1, []), (1, [("a", 0)]), (2, [("a", 0)]), (2, [("a", 0), ("b", 0)]), (2, [("b", 0), ("a", 0)]),
    ]
    # 2 threads x 1 op, all unordered pairs (thread symmetry), every init
    pairs = list(itertools.combinations_with_replacement(range(len(a1)), 2))
    for cap, init in inits:
        for i, j in pairs:
            progs.append({"cap": cap, "init": init, "threads": [[a1[i]], [a1[j]]], "bound": 2})
    # 2 threads x 2 ops and 3 threads x 1 op over a reduced alphabet
    a2: list[tuple[Any, ...]] = [("set", "a", 1), ("set", "z", 1), ("set", "y", 1), ("getitem", "a"), ("del", "a"),
                                 ("items",)]
    inits2 = [(1, [("a", 0)]), (2, [("b", 0), ("a", 0)])]
    two = list(itertools.product(a2, repeat=2))
    if tier == "thorough":
        for cap, init in inits2:
            for p, q in itertools.combinations_with_replacement(two, 2):
                progs.append({"cap": cap, "init": init, "threads": [list(p), list(q)], "bound": 2})
            for tri in itertools.combinations_with_replacement(a2, 3):
                progs.append({"cap": cap, "init": init, "threads": [[x] for x in tri], "bound": 2})
        for cap, init in inits:
            for i, j in pairs:
                progs.append({"cap": cap, "init": init, "threads": [[a1[i]], [a1[j]]], "bound": 3})
        # deeper: 2 threads x 3 ops (one mutator-heavy program against every 2-op program) at bound 2,
        # and 3 threads x 1 op at bound 3
        three = [(("set", "z", 1), ("getitem", "a"), ("set", "y", 1)), (("del", "a"), ("set", "a", 1), ("items",))]
        for cap, init in inits2:
            for p3 in three:
                for q in two:
                    progs.append({"cap": cap, "init": init, "threads": [list(p3), list(q)], "bound": 2})
            for tri in itertools.combinations_with_replacement(a2, 3):
                progs.append({"cap": cap, "init": init, "threads": [[x] for x in tri], "bound": 3})
    else:
        for cap, init in inits2:
            for tri in itertools.combinations_with_replacement(a2, 3):
                progs.append({"cap": cap, "init": init, "threads": [[x] for x in tri], "bound": 1})
            # two-op threads: one writer-ish program against every other
            for p in [(("set", "z", 1), ("getitem", "a")), (("items",), ("set", "a", 1))]:
                for q in two:
                    progs.append({"cap": cap, "init": init, "threads": [list(p), list(q)], "bound": 1})
    return progs


_EXPLORER: Any = None


def get_explorer() -> Any:
    global _EXPLORER
    if _EXPLORER is None:
        import sys as _sys

        from liquid.utils import lru_cache as mod
        from mc import sched_threads as S

        cos = S.code_objects_of(mod) + [f.__code__ for f in OPS.values()]
        _EXPLORER = S.Explorer(cos)
        _ = _sys
    return _EXPLORER


def make_cache(cap: int, init: list[tuple[str, int]], exec_ref: Any) -> Any:
    """Real ThreadSafeLRUCache whose lock(s) are replaced by scheduler-aware locks."""
    import threading

    from liquid.utils import lru_cache as mod
    from mc import sched_threads as S

    c = mod.ThreadSafeLRUCache(cap)
    swap_locks(c, lambda re: S.SchedLock(exec_ref, reentrant=re))
    _ = threading
    for k, v in init:
        c[k] = v
    return c


def run_thread_program(prog: dict[str, Any], res: Result, max_schedules: int = 10**9) -> None:
    from mc import sched_threads as S

    exp = get_explorer()
    cap, init, threads, bound = prog["cap"], [tuple(x) for x in prog["init"]], prog["threads"], prog["bound"]
    outcomes: set[str] = set()
    memo: dict[str, bool] = {}
    from mc.core import jdumps

    def make() -> tuple[list[Any], Any]:
        c = make_cache(cap, init, exp.exec_ref)
        history: list[dict[str, Any]] = []

        def body_for(t: int) -> Any:
            def body() -> None:
                ex = exp.exec_ref[0]
                for op in threads[t]:
                    rec = {"tid": t, "op": list(op), "inv": ex.stamp()}
                    rec["result"] = norm(real_apply(c, tuple(op)))
                    rec["ret"] = ex.stamp()
                    history.append(rec)

            return body

        return [body_for(t) for t in range(len(threads))], (c, history)

    before = exp.schedules

    def on_exec(ex: Any, ctx: Any) -> None:
        c, history = ctx
        res.transitions += ex.steps
        case = {"part": "threads", "capacity": cap, "init": init, "threads": threads, "schedule": list(ex.choices)}
        opkinds = sorted({op[0] for th in threads for op in th})
        if ex.deadlock:
            res.violation({"part": "threads", "clause": "deadlock", "ops": opkinds},
                          f"deadlock: threads {threads} on capacity {cap} init {init}, schedule {ex.choices}", case)
            outcomes.add("deadlock")
            return
        if ex.horizon_hit:
            res.violation({"part": "threads", "clause": "livelock-or-horizon", "ops": opkinds},
                          f"no termination within {ex.horizon} steps: {threads}", case)
            return
        for t, e in enumerate(ex.errors):
            if e is not None:
                raise S.HarnessError(f"driver body {t} raised {e!r}")
        bad = [h for h in history if h["result"][0] == "raise" and h["result"][1] != "KeyError"]
        if bad:
            h = bad[0]
            res.violation({"part": "threads", "clause": "no-failure", "exc": h["result"][1], "op": h["op"][0]},
                          f"thread {h['tid']} op {h['op']} raised {h['result'][1]} under schedule {ex.choices} "
                          f"(capacity {cap}, init {init}, threads {threads})", case)
            outcomes.add("exc:" + h["result"][1])
            return
        final_obs = norm([real_apply(c, ("len",)), real_apply(c, ("items",))])
        key = jdumps([[(h["tid"], h["op"], h["inv"], h["ret"], h["result"]) for h in history], final_obs])
        ok = memo.get(key)
        if ok is None:
            ok = linearizable(init, cap, history, final_obs)
            memo[key] = ok
        outcomes.add(jdumps([sorted((h["tid"], jdumps(h["op"]), jdumps(h["result"])) for h in history), final_obs]))
        if not ok:
            res.violation({"part": "threads", "clause": "linearizability", "ops": opkinds},
                          f"history not linearizable: {history} final {final_obs} (capacity {cap}, init {init}, "
                          f"schedule {ex.choices})", case)

    complete = exp.explore(make, bound, on_exec, max_schedules=before + max_schedules)
    n = exp.schedules - before
    res.traces += n
    res.states += n
    if not complete:
        res.notes.append("schedule cap hit for a thread program; that program is NOT fully covered")
    multi = sum(len(t) for t in threads) >= 2
    res.case(nontrivial=[cap, init, threads, bound] if multi else None,
             outcome=f"threads:distinct_outcomes={len(outcomes)}", n=n)
    res.count("thread_schedules", n)
    res.count("thread_programs", 1)
    res.count(f"thread_programs_with_{min(len(outcomes), 3)}{'+' if len(outcomes) >= 3 else ''}_outcomes", 1)
    if len(res.samples) < 2:
        res.samples.append({"part": "threads", "capacity": cap, "init": init, "threads": threads,
                            "preemption_bound": bound, "schedules": n, "distinct_outcomes": len(outcomes)})


def free_running_stress(nthreads: int, cap: int, seed: int, res: Result, ops_per_thread: int = 4000) -> None:
    """SUPPLEMENTARY (sampling, not what decides the property): real lock, real preemptive threads under a tiny
    switch interval -- catches unsynchronised accesses that a cooperative scheduler's hand-offs could hide."""
    import random
    import sys
    import threading

    from liquid.utils import lru_cache as mod

    c = mod.ThreadSafeLRUCache(cap)
    errors: list[str] = []
    over: list[int] = []
    keys = KEYS[: cap + 1]
    old = sys.getswitchinterval()
    sys.setswitchinterval(1e-6)

    def worker(tid: int) -> None:
        rnd = random.Random(seed * 1000 + tid)
        for _ in range(ops_per_thread):
            k = rnd.choice(keys)
            op = rnd.randrange(8)
            try:
                if op == 0:
                    c[k] = tid
                elif op == 1:
                    c.get(k)
                elif op == 2:
                    try:
                        del c[k]
                    except KeyError:
                        pass
                elif op == 3:
                    _ = k in c
                elif op == 4:
                    if len(list(c.keys())) > cap:
                        over.append(1)
                elif op == 5:
                    list(c.items())
                elif op == 6:
                    list(c.values())
                else:
                    if len(c) > cap:
                        over.append(1)
            except Exception as e:  # noqa: BLE001
                errors.append(type(e).__name__)
                return

    try:
        ths = [threading.Thread(target=worker, args=(t,)) for t in range(nthreads)]
        for t in ths:
            t.start()
        for t in ths:
            t.join()
    finally:
        sys.setswitchinterval(old)
    res.count("free_running_ops", nthreads * ops_per_thread)
    res.case(outcome=f"free-running:{'fail' if errors or over else 'ok'}", n=1)
    if errors:
        res.violation({"part": "free-running", "clause": "no-failure", "exc": sorted(set(errors))[0]},
                      f"free-running stress ({nthreads} threads, capacity {cap}): thread raised {sorted(set(errors))}",
                      {"part": "free-running", "threads": nthreads, "capacity": cap, "seed": seed})
    if over:
        res.violation({"part": "free-running", "clause": "capacity"},
                      f"free-running stress ({nthreads} threads, capacity {cap}): more than capacity entries observed",
                      {"part": "free-running", "threads": nthreads, "capacity": cap, "seed": seed})


class C24(Check):
    id = "C24"
    level = "model_checking"
    rule = (
        "Part A: explicit-state BFS to a fixpoint over LRUCache and ThreadSafeLRUCache, capacity 1..4, "
        "capacity+1 keys, values {0,1}, 11 operation kinds; a state is the reference-model content "
        "(validated against the real object after every transition through len/items and an eviction-order "
        "probe); every transition is executed on a fresh real cache rebuilt by replaying the shortest "
        "history. Non-trivial = transition from a non-empty state. Part B: all schedules up to the stated "
        "preemption bound of 2-3 thread programs on a real ThreadSafeLRUCache (scheduler-aware lock, "
        "scheduling point before every non-frame-local bytecode of lru_cache.py and the driver ops); "
        "oracle = no failure + brute-force linearizability w.r.t. the reference model. states = BFS states "
        "+ complete schedules; transitions = BFS transitions + scheduler steps."
    )
    assumptions = [
        "keys are interchangeable strings; values outside {0,1,9} behave alike",
        "thread switches happen only between bytecodes (CPython); C-level calls are atomic",
        "the 'longer random sequences' and '2..16 free-running threads' parts of the quantifier are sampling and are not what decides this property",
    ]

    def bounds(self, tier: str) -> dict[str, Any]:
        return {
            "sequential": "fixpoint, capacities 1..4, keys=capacity+1, values {0,1}",
            "threads": "2 threads x 1 op (all pairs, 5 inits) bound 2; 3 threads x 1 op and 2x2 ops bound 1"
            if tier == "quick"
            else "2x1 ops bound 3; 2x2 ops bound 2; 2 threads x (3 ops | 2 ops) bound 2; 3x1 ops bound 3; plus a SUPPLEMENTARY "
                 "free-running stress (2..16 real threads, switch interval 1e-6) that is sampling and reported separately",
        }

    def shards(self, tier: str) -> list[Any]:
        sh: list[Any] = [("seq", cls, cap) for cls in ("LRUCache", "ThreadSafeLRUCache") for cap in (1, 2, 3, 4)]
        progs = thread_programs(tier)
        per = 6 if tier == "quick" else 4
        for i in range(0, len(progs), per):
            sh.append(("thr", progs[i : i + per]))
        if tier == "thorough":
            sh += [("free", n, cap) for n in (2, 4, 8, 16) for cap in (1, 2, 4)]
        return sh

    def run_shard(self, shard: Any, tier: str) -> Result:
        res = Result()
        if shard[0] == "seq":
            bfs_sequential(shard[1], shard[2], res)
        elif shard[0] == "free":
            import os

            free_running_stress(shard[1], shard[2], int(os.environ.get("VERIF_SEED", "0") or 0), res)
        else:
            for prog in shard[1]:
                run_thread_program(prog, res)
            get_explorer().uninstall()
        return res

    def replay(self, case: Any) -> list[dict[str, Any]]:
        out: list[dict[str, Any]] = []
        if case["part"] == "free-running":
            r = Result()
            free_running_stress(case["threads"], case["capacity"], case["seed"], r)
            return r.violations
        if case["part"] == "sequential":
            hist = [tuple(x) for x in case["history"]]
            st: list[tuple[str, int]] = []
            for op in hist:
                _, st = ref_apply(st, case["capacity"], op)
            v, _ = check_transition(case["cls"], case["capacity"], hist, st, tuple(case["op"]))
            if v:
                out.append(v)
            return out
        res = Result()
        prog = {"cap": case["capacity"], "init": case["init"], "threads": case["threads"], "bound": 0}
        # replay exactly the recorded schedule: explore with the schedule as the only prefix
        from mc import sched_threads as S

        exp = get_explorer()
        exp.install()
        holder: list[Any] = []
        orig_explore = exp.explore

        def only_prefix(make: Any, bound: int, on_execution: Any, max_schedules: int = 0, horizon: int = 4000) -> bool:
            ex, ctx = exp.run_one(make, list(case["schedule"]), horizon)
            exp.schedules += 1
            on_execution(ex, ctx)
            holder.append(ex)
            return True

        exp.explore = only_prefix  # type: ignore[method-assign]
        try:
            run_thread_program(prog, res)
        finally:
            exp.explore = orig_explore  # type: ignore[method-assign]
            exp.uninstall()
        _ = S
        return res.violations


CHECK = C24()
