"""C08 — resource limits only abort a render, never alter its output.

Bounded exhaustive enumeration on the real implementation.  Every case of ``mc.ref.c08_cases`` (C06-like
nests, the C07 corpus, data-bounded recursion, nested blocks, two-variable sequences) is parsed and rendered once with every limit
"unlimited" (loop / output / namespace = None, context depth and block nesting = 10**6 because their
defaults are finite).  Then, for each of the five limits separately (the other four stay unlimited), the
limit is swept from 0 to beyond the resource the case uses, each value on its own Environment subclass,
and parse + render is repeated.

Oracle (both clauses are the property statement):
  identical-or-resource-error  every result is the unlimited result or a ResourceLimitError subclass
  monotone                     once a value succeeds every larger value of the sweep succeeds with the same
                               output; the first offending pair (v, v') is reported
Repeated renders (every 4th case in quick, every case in thorough; every limit): the template is parsed once per
limit value and the SAME template object is rendered four times (full data, shrunk data, no data, full data) at
the largest aborting value, the smallest succeeding value, the far value and, for the output limit, the size and
size-1 of every render of the sequence; each render must equal the corresponding render of the unlimited sequence
(same object, same number of renders) or be a ResourceLimitError.

A sweep whose largest finite value still aborts did not reach "beyond the resource actually used": that is
a harness error (exit 2), never a pass.
"""

from __future__ import annotations

from typing import Any
from typing import Optional

from mc.core import Check
from mc.core import Result
from mc.ref import c07_meter as meter
from mc.ref import c08_cases as K

LIMITS = ("loop_iteration_limit", "output_stream_limit", "local_namespace_limit", "context_depth_limit",
          "block_nesting_limit")
UNLIMITED = {"loop_iteration_limit": None, "output_stream_limit": None, "local_namespace_limit": None,
             "context_depth_limit": K.FAR_DEPTH, "block_nesting_limit": K.FAR_DEPTH}
FAR = {"loop_iteration_limit": K.FAR, "output_stream_limit": K.FAR, "local_namespace_limit": K.FAR,
       "context_depth_limit": K.FAR_DEPTH, "block_nesting_limit": K.FAR_DEPTH}
N_SHARDS = {"quick": 64, "thorough": 256}
REPEAT_EVERY = {"quick": 4, "thorough": 1}  # repeated-render check on every n-th case of the (family-ordered) list

_STORE: dict[str, str] = {}
_ENVS: dict[tuple[Optional[str], Optional[int], bool], Any] = {}


class SweepTooShort(BaseException):
    pass


def get_env(limit: Optional[str], value: Optional[int], extra: bool) -> Any:
    key = (limit, value, extra)
    env = _ENVS.get(key)
    if env is None:
        import liquid
        from mc.util import make_env

        if len(_ENVS) > 4000:
            _ENVS.clear()
        limits = dict(UNLIMITED)
        if limit is not None:
            limits[limit] = value
        env = _ENVS[key] = make_env(limits=limits, loader=liquid.DictLoader(_STORE), extra=extra)
    return env


def run(case: dict[str, Any], limit: Optional[str], value: Optional[int], api: str = "sync") -> tuple[Any, list[int]]:
    from mc import util as U

    _STORE.clear()
    _STORE.update(case["partials"])
    env = get_env(limit, value, bool(case.get("extra")))
    d = meter.fresh(revive(case["data"]))

    def go() -> Any:
        t = env.from_string(case["source"])
        if api == "sync":
            return t.render(**d)
        return U.run_coro(t.render_async(**d))

    return meter.metered(lambda: U.outcome(go))


def revive(data: Any) -> Any:
    """Replay files store a range as {"__range__": [start, stop]}."""
    if isinstance(data, dict):
        if set(data) == {"__range__"}:
            return range(*data["__range__"])
        return {k: revive(v) for k, v in data.items()}
    if isinstance(data, list):
        return [revive(v) for v in data]
    return data


def shrink(data: dict[str, Any]) -> dict[str, Any]:
    """The same variables with smaller values, so that the same template renders less text."""
    out: dict[str, Any] = {}
    for k, v in data.items():
        if isinstance(v, bool) or v is None:
            out[k] = v
        elif isinstance(v, int):
            out[k] = v // 2
        elif isinstance(v, str):
            out[k] = v[:1]
        elif isinstance(v, list):
            out[k] = v[:1]
        elif isinstance(v, range):
            out[k] = range(v.start, min(v.stop, v.start + 1))
        else:
            out[k] = v
    return out


def sequence_of(case: dict[str, Any]) -> list[dict[str, Any]]:
    """Data for consecutive renders of ONE template object: full, shrunk, none at all, full again."""
    data = revive(case["data"])
    return [data, shrink(data), {}, data]


def run_sequence(case: dict[str, Any], limit: Optional[str], value: Optional[int], datas: list[dict[str, Any]],
                 api: str = "sync") -> list[Any]:
    """Parse once, render the same template object once per data set -> one Outcome per render."""
    from mc import util as U

    _STORE.clear()
    _STORE.update(case["partials"])
    env = get_env(limit, value, bool(case.get("extra")))
    parsed = U.outcome(lambda: env.from_string(case["source"]))
    if not parsed.ok:
        return [parsed for _ in datas]
    t = parsed.value
    outs = []
    for data in datas:
        d = meter.fresh(data)
        if api == "sync":
            outs.append(U.outcome(lambda: t.render(**d)))
        else:
            outs.append(U.outcome(lambda: U.run_coro(t.render_async(**d))))
    return outs


def repeat_values(limit: str, results: list[tuple[int, Any]], base_seq: list[Any]) -> list[int]:
    """Limit values for the repeated-render check: the largest value that aborts the single render, the smallest
    that lets it succeed, the far value; for the output limit also the size (and size - 1) of every render of the
    unlimited sequence, so that a longer or an aborted render is followed by one that fits."""
    vals: set[int] = {FAR[limit]}
    failing = [v for v, o in results if not o.ok and v != FAR[limit]]
    passing = [v for v, o in results if o.ok and v != FAR[limit]]
    if failing:
        vals.add(max(failing))
    if passing:
        vals.add(min(passing))
    if limit == "output_stream_limit":
        for o in base_seq:
            if o.ok:
                n = len(o.value.encode("utf-8"))
                vals |= {n, max(n - 1, 0)}
    return sorted(vals)


def check_repeat(case: dict[str, Any], limit: str, results: list[tuple[int, Any]], base_seq: list[Any],
                 datas: list[dict[str, Any]], api: str, res: Optional[Result]) -> list[dict[str, Any]]:
    """The same parsed template rendered several times under a limit: every render must equal the corresponding
    render of the unlimited sequence (same template object, same number of renders) or be a ResourceLimitError."""
    viols: list[dict[str, Any]] = []
    sizes = [len(o.value) if o.ok else -1 for o in base_seq]
    shrinks = any(0 <= sizes[i] < max(sizes[:i]) for i in range(1, len(sizes)))
    for v in repeat_values(limit, results, base_seq):
        outs = run_sequence(case, limit, v, datas, api)
        bad = None
        for i, (o, want) in enumerate(zip(outs, base_seq)):
            if kind_of(o) == kind_of(want) or is_resource_error(o):
                continue
            bad = (i, o, want)
            break
        n_ok = sum(1 for o in outs if o.ok)
        n_lim = sum(1 for o in outs if is_resource_error(o))
        if bad is not None:
            i, o, want = bad
            earlier = "after-aborted-render" if any(is_resource_error(x) for x in outs[:i]) else "after-completed-render"
            viols.append({
                "signature": {"clause": "identical-or-resource-error", "limit": limit, "family": case["family"], "api": api,
                              "got": "different-output" if o.ok else o.error_class,
                              "feature": f"repeated-render:{'first' if i == 0 else earlier}"},
                "what": f"{case['source']!r} partials={case['partials']!r} ({api}) {limit}={v}: render #{i + 1} of the SAME "
                        f"template object with data={datas[i]!r} gives {_short(o)}, the unlimited sequence gives "
                        f"{_short(want)} (earlier renders: {[_short(x) for x in outs[:i]]})",
                "case": {"family": case["family"], "source": case["source"], "partials": case["partials"],
                         "data": case["data"], "extra": bool(case.get("extra")), "limit": limit, "api": api,
                         "repeat": True, "loop_vals": case["loop_vals"], "depth_top": case["depth_top"],
                         "block_top": case["block_top"]}})
        if res is not None:
            pattern = "all-complete" if n_lim == 0 else "all-abort" if n_ok == 0 else "abort-then-complete" \
                if any(is_resource_error(outs[i]) and any(o.ok for o in outs[i + 1:]) for i in range(len(outs))) \
                else "complete-then-abort"
            res.case(n=len(outs),
                     nontrivial=[case["family"], case["source"], sorted(case["partials"].items()), limit, api, v, "repeat"]
                     if (n_ok >= 1 and (shrinks or n_lim >= 1)) else None,
                     outcome=f"{case['family']}:{limit}:repeat:{pattern}" + (":VIOLATION" if bad else ""))
            res.count("repeated_render_sequences")
        if viols:
            break
    return viols


def is_resource_error(o: Any) -> bool:
    from liquid.exceptions import ResourceLimitError

    return bool(o.is_liquid_error) and isinstance(o[3], ResourceLimitError)


def kind_of(o: Any) -> Any:
    return ("ok", o[1]) if o.ok else ("err", o[1])


def sweep_values(case: dict[str, Any], limit: str, base: Any, totals: list[int]) -> list[int]:
    if limit == "loop_iteration_limit":
        vals = list(case["loop_vals"])
    elif limit == "output_stream_limit":
        vals = K.output_vals(len(base.value.encode("utf-8")) if base.ok else 0)
    elif limit == "local_namespace_limit":
        vals = K.namespace_vals(totals)
    elif limit == "context_depth_limit":
        vals = list(range(0, case["depth_top"] + 1))
    else:
        vals = list(range(0, case["block_top"] + 1))
    return sorted(set(vals) | {FAR[limit]})


def _short(o: Any) -> str:
    if o.ok:
        s = repr(o.value)
        return s if len(s) < 120 else s[:117] + "...'"
    return o.error_class


def check_sweep(case: dict[str, Any], limit: str, base: Any, totals: list[int], api: str,
                res: Optional[Result], out_results: Optional[list[tuple[int, Any]]] = None) -> list[dict[str, Any]]:
    vals = sweep_values(case, limit, base, totals)
    results = [(v, run(case, limit, v, api)[0]) for v in vals]
    # extend (doubling) until the largest finite value is beyond the resource the case uses
    far = results.pop()
    for _ in range(8):
        if not (results and base.ok and is_resource_error(results[-1][1]) and far[1].ok):
            break
        v = 2 * results[-1][0] + 1
        results.append((v, run(case, limit, v, api)[0]))
        if res is not None:
            res.count("sweeps_extended_by_doubling")
    results.append(far)
    vals = [v for v, _ in results]
    if out_results is not None:
        out_results.extend(results)
    want = kind_of(base)
    viols: list[dict[str, Any]] = []
    rec = {"family": case["family"], "source": case["source"], "partials": case["partials"], "data": case["data"],
           "extra": bool(case.get("extra")), "limit": limit, "api": api, "values": vals,
           "loop_vals": case["loop_vals"], "depth_top": case["depth_top"], "block_top": case["block_top"]}
    head = f"{case['source']!r} partials={case['partials']!r} data={case['data']!r} ({api}) {limit}"

    # clause 1: identical to the unlimited result, or a ResourceLimitError
    for v, o in results:
        if kind_of(o) == want or is_resource_error(o):
            continue
        got = "different-output" if o.ok else o.error_class
        viols.append({
            "signature": {"clause": "identical-or-resource-error", "limit": limit, "family": case["family"], "api": api,
                          "got": got, "feature": "v==0" if v == 0 else "v>0"},
            "what": f"{head}={v}: result is {_short(o)}, unlimited result is {_short(base)}",
            "case": rec})
        break  # the first (smallest) offending value of this sweep

    # clause 2: monotone success
    first_ok: Optional[tuple[int, Any]] = None
    for v, o in results:
        if first_ok is None:
            if o.ok:
                first_ok = (v, o)
            continue
        if not (o.ok and o.value == first_ok[1].value):
            v0 = first_ok[0]
            viols.append({
                "signature": {"clause": "monotone", "limit": limit, "family": case["family"], "api": api,
                              "got": "different-output" if o.ok else o.error_class,
                              "feature": "v==0" if v0 == 0 else "v>0"},
                "what": f"{head}={v0} succeeds with {_short(first_ok[1])} but the larger value {v} gives {_short(o)}",
                "case": rec})
            break

    # the sweep must end beyond the resource used
    finite = [(v, o) for v, o in results if v != FAR[limit]]
    if finite and base.ok and is_resource_error(finite[-1][1]) and results[-1][1].ok:
        raise SweepTooShort(f"harness error: {head} sweep {vals} ends below the resource used "
                            f"({finite[-1][0]} -> {finite[-1][1].error_class})")

    if res is not None:
        n_ok = sum(1 for _, o in results if o.ok)
        n_lim = sum(1 for _, o in results if is_resource_error(o))
        binds = n_ok > 0 and n_lim > 0
        errs = sorted({o.error_class for _, o in results if not o.ok})
        label = f"{case['family']}:{limit}:" + ("binds" if binds else "never-aborts" if n_lim == 0 else "always-aborts")
        label += ":" + ("+".join(errs) or "-")
        res.case(n=len(results),
                 nontrivial=[case["family"], case["source"], sorted(case["partials"].items()),
                             sorted(case["data"].items()), limit, api] if binds else None,
                 outcome=label + (":VIOLATION" if viols else ""),
                 sample={"family": case["family"], "source": case["source"], "partials": case["partials"],
                         "data": case["data"], "limit": limit,
                         "sweep": [[v, _short(o)] for v, o in results][:14]}
                 if (binds and len(res.samples) < 2 and len(case["source"]) < 200) else None)
        res.count("sweeps")
        if binds:
            res.count("sweeps_where_limit_binds:" + limit)
    return viols


def check_case(case: dict[str, Any], tier: str, res: Optional[Result], only: Optional[dict[str, Any]] = None,
               repeat: bool = True) -> list[dict[str, Any]]:
    base, totals = run(case, None, None)
    if res is not None:
        res.count("cases:" + case["family"])
    if not base.ok:
        if res is not None:
            res.count("unlimited_result_is_an_error:" + str(base.error_class))
        if base.is_other_error:
            return [{"signature": {"clause": "harness", "got": base.error_class, "family": case["family"]},
                     "what": f"{case['source']!r}: unlimited render raised non-Liquid {base.error_class} at {base.where}",
                     "case": {**case, "limit": None}}]
    viols: list[dict[str, Any]] = []
    apis = ("sync",) if tier == "quick" else ("sync", "async")
    datas = sequence_of(case)
    base_seq: dict[str, list[Any]] = {}
    for limit in LIMITS:
        for api in apis:
            if only is not None and (only.get("limit") != limit or only.get("api", "sync") != api):
                continue
            results: list[tuple[int, Any]] = []
            found = check_sweep(case, limit, base, totals, api, res, results)
            if only is None or not only.get("repeat"):
                viols += found
            if repeat and (only is None or only.get("repeat")):
                if api not in base_seq:
                    base_seq[api] = run_sequence(case, None, None, datas, api)
                viols += check_repeat(case, limit, results, base_seq[api], datas, api, res)
    return viols


_CASES: dict[str, list[dict[str, Any]]] = {}


def cases(tier: str) -> list[dict[str, Any]]:
    if tier not in _CASES:
        _CASES[tier] = K.all_cases(tier)
    return _CASES[tier]


class C08(Check):
    id = "C08"
    level = "exploration"
    title = "Resource limits only abort a render, never alter its output"
    rule = (
        "Every case of six families (nest: every nest of depth <= 3 of for / tablerow / include-for / render-for / "
        "include, render or macro call inside a for, each level over a list of length 0..3; c07: the C07 corpus; rec: "
        "self-include, self-render, mutual render and render-through-a-loop recursion of data-bounded depth k; blocks: "
        "every chain of <= 3 block kinds, homogeneous chains up to depth Dmax, else/elsif/when branches, sibling "
        "chains, chains inside partials; vars: every sequence of <= 4 assign/capture/output steps over two variables; "
        "values: 18 typed value expressions x 8 uses (output, compare, iterate, filters, render argument, include, "
        "rebind, capture) x 4 binding sites) "
        "is rendered unlimited, then once per value of a sweep of each of the five "
        "limits (0 .. beyond the use of the case, plus a far value; other limits unlimited). One evaluation = one "
        "limited parse+render. Every 4th case (thorough: every case) additionally renders one parsed template object four "
        "times in a row (full, shrunk, no, full data) per limit at 3-9 values, each render compared with the unlimited "
        "sequence; such a sequence is non-trivial iff a render completes and a later render is shorter than an earlier "
        "one or some render aborts. A (case, limit) sweep is non-trivial iff the limit binds in it: at least one value "
        "aborts with a ResourceLimitError and at least one succeeds; distinct = distinct (family, source, partials, "
        "data, limit, api)."
    )
    assumptions = [
        "strict mode only (the statement's 'fail with a ResourceLimitError' presupposes errors are raised)",
        "'unlimited' = None for loop/output/namespace limits, 10**6 for context depth and block nesting (finite defaults)",
        "one limit is configured at a time, as a class attribute of a private Environment subclass",
        "recursion is data-bounded (terminates without limits); unbounded recursion belongs to C09",
        "quick runs render(); thorough also runs render_async()",
    ]

    def bounds(self, tier: str) -> dict[str, Any]:
        cs = cases(tier)
        fam: dict[str, int] = {}
        for c in cs:
            fam[c["family"]] = fam.get(c["family"], 0) + 1
        return {
            "cases_per_family": fam,
            "limits": list(LIMITS),
            "loop_iteration_limit": "0..4, every prefix product and level length +-1, top+1, 2*top+1, 10**9 (nests); "
                                    "every integer 0..7 (c07), 0..k!+2 (loop recursion)",
            "output_stream_limit": "every integer 0..min(U+2,32), U/2, U-2..U+2, 2U+1, 10**9",
            "line_endings": "\\r, \\r\\n and \\n\\r occur in literal text, partial text, captured text and data of every family",
            "local_namespace_limit": "0,1,S-1,S,S+1,2S, T-1,T for the first 3 totals, 10**9",
            "context_depth_limit": "every integer 0..(static bound on use + margin), 10**6",
            "block_nesting_limit": "every integer 0..(block depth of the source + 3), 10**6",
            "nest": "depth 1-2: 7 kinds x lengths 0..3; depth 3: " + ("5 kinds (for, tablerow, render-for, include in for, macro call in for) x lengths {2,3}x{2,3}x{0,2,3}" if tier == "quick" else
                                                                       "7 kinds x lengths 0..3"),
            "recursion_depth_k": "0..6" if tier == "quick" else "0..9",
            "block_chain_depth": "<= 3 over 7 kinds, homogeneous up to " + ("8" if tier == "quick" else "14"),
        }

    def shards(self, tier: str) -> list[Any]:
        k = N_SHARDS[tier]
        return [(j, k) for j in range(k)]

    def run_shard(self, shard: Any, tier: str) -> Result:
        from mc.util import reset_memo

        j, k = shard
        res = Result()
        reset_memo()
        meter.install()
        every = REPEAT_EVERY[tier]
        for m, case in enumerate(cases(tier)[j::k]):
            index = j + m * k  # position in the full case list: the sample does not depend on sharding
            for v in check_case(case, tier, res, repeat=(index % every == 0)):
                res.violation(v["signature"], v["what"], v["case"])
        return res

    def replay(self, case: Any) -> list[dict[str, Any]]:
        meter.install()
        return check_case(case, "thorough", None, only=case)


CHECK = C08()
