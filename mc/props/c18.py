"""C18 -- template inheritance resolves blocks to the most-derived definition.

Bounded exhaustive enumeration of abstract inheritance programs (mc/ref/c18_model.py), printed to a
DictLoader of an ``extra=True`` environment and rendered from the leaf (sync and async); the oracle is
the reference resolver of the model (every clause a literal reading of the statement or of
docs/optional_tags.md; everything else is excluded and counted).

Families (each enumerated completely inside its bound):

S  structure: chains of length L; every template an ordered forest of <= K blocks over the name pool
   {a,b,c} (distinct names per template, any nesting shape), every block independently
   required/not (at most R required flags per chain, a deviation bound; R unbounded for the small
   members) and with/without ``{{ block.super }}`` (root blocks: no super); names canonical (first
   occurrences in the chain appear in the order a,b,c -- block names are interchangeable).
   Every block body is ``[<name><level>`` super? children ``]`` so the output spells the resolution;
   root has marker text around its blocks; every non-root template has stray text after ``extends``
   and between its blocks (must never be rendered).
D  decorations: every chain of S with no required flag, times every (site, decoration): one block gets
   a ``for`` around it / a ``for`` around its whole body / a ``for`` printing its loop variable /
   ``{{ x }}`` / super last / super twice / super inside a ``for`` / a matching ``endblock name`` /
   (root block) a ``block.super`` / an ``if true`` / ``unless false`` / ``case 1 when 1`` around it (the
   block being the only node of that body) / an empty body / a whitespace-only body / each of the four
   control-flow wrappers combined with each of the two blank bodies (the placeholder shape: what the
   template itself writes for the block says nothing about what its most-derived definition renders) /
   readers: every block body of the chain prints ``{{ i }}{{ forloop.index }}{{ w }}`` and the site block sits
   inside ``for`` / ``with`` / ``for`` + ``with``, or its body (super and nested blocks included) sits inside a
   ``for`` / ``with`` -- the rendered definition (own, overriding, through super, nested) must read what the
   constructs around the place of substitution bind;
   or one template gets a stray ``{{ x }}`` / stray ``for`` (non-root),
   a top-level ``{{ x }}`` (root).
E  error shapes on the unrequired, super-free chains of S: a duplicate of every block (as next sibling,
   as first child, at the end of the template, inside a ``for``), a mismatched ``endblock`` name on every
   block, a second ``extends`` (same parent / the root / at the end); plus extends cycles of length 1..3
   reached through a tail of 0..2 templates, every template with or without a block.
"""

from __future__ import annotations

import itertools
from typing import Any
from typing import Iterator
from typing import Optional

from mc.core import Check
from mc.core import Result
from mc.ref import c18_model as M

POOL = "abc"

# ---------------------------------------------------------------------------
# skeletons
# ---------------------------------------------------------------------------
# forest = tuple of trees; tree = tuple of child trees.  A template skeleton is
# (forest, names (preorder, indexes into POOL), styles (preorder, (required, super))).


def forests(k: int) -> list[Any]:
    if k == 0:
        return [()]
    out = []
    for first in range(1, k + 1):
        for sub in forests(first - 1):
            for rest in forests(k - first):
                out.append((sub,) + rest)
    return out


def name_seqs(k: int, used: int) -> Iterator[tuple[tuple[int, ...], int]]:
    """Preorder name assignments: distinct, new names introduced in pool order after ``used``."""

    def rec(seq: list[int], nu: int) -> Iterator[tuple[tuple[int, ...], int]]:
        if len(seq) == k:
            yield tuple(seq), nu
            return
        for n in range(min(nu + 1, len(POOL))):
            if n in seq:
                continue
            seq.append(n)
            yield from rec(seq, max(nu, n + 1))
            seq.pop()

    yield from rec([], used)


def templates(used: int, kmax: int, styles: list[tuple[int, int]]) -> Iterator[tuple[Any, int]]:
    """Every template skeleton with <= kmax blocks given ``used`` names seen so far in the chain."""
    for k in range(kmax + 1):
        for forest in forests(k):
            for names, nu in name_seqs(k, used):
                for st in itertools.product(styles, repeat=k):
                    yield (forest, names, st), nu


def style_menu(level: int, required: bool) -> list[tuple[int, int]]:
    sups = (0,) if level == 0 else (0, 1)
    reqs = (0, 1) if required else (0,)
    return [(r, s) for r in reqs for s in sups]


UNBOUNDED = 99


def _extend(level: int, used: int, req_left: int, kmax: int, plain: bool) -> Iterator[tuple[Any, int, int]]:
    """Every template for ``level`` given the chain state: (skeleton, used names, required flags left)."""
    menu = [(0, 0)] if plain else style_menu(level, req_left > 0)
    for t, nu in templates(used, kmax, menu):
        nreq = sum(st[0] for st in t[2])
        if nreq <= req_left:
            yield t, nu, req_left - nreq


def chain_prefixes(length: int, kmax: int, maxreq: int, plain: bool = False) -> list[tuple[list[Any], int, int]]:
    """The first min(length, 2) levels of every chain with the chain state (the shard units)."""
    out: list[tuple[list[Any], int, int]] = []
    depth = min(length, 2)

    def rec(level: int, used: int, left: int, prefix: list[Any]) -> None:
        if level == depth:
            out.append((list(prefix), used, left))
            return
        for t, nu, nl in _extend(level, used, left, kmax, plain):
            prefix.append(t)
            rec(level + 1, nu, nl, prefix)
            prefix.pop()

    rec(0, 0, maxreq, [])
    return out


def complete(prefix: list[Any], used: int, left: int, length: int, kmax: int,
             plain: bool = False) -> Iterator[list[Any]]:
    def rec(level: int, u: int, lf: int, pre: list[Any]) -> Iterator[list[Any]]:
        if level == length:
            yield list(pre)
            return
        for t, nu, nl in _extend(level, u, lf, kmax, plain):
            pre.append(t)
            yield from rec(level + 1, nu, nl, pre)
            pre.pop()

    yield from rec(len(prefix), used, left, list(prefix))


def count_chains(length: int, kmax: int, maxreq: int, plain: bool = False) -> int:
    """Number of chains (dynamic programming over the chain state; only used to size shards)."""
    memo: dict[tuple[int, int, int], int] = {}

    def rec(level: int, used: int, left: int) -> int:
        if level == length:
            return 1
        key = (level, used, min(left, 3 * length + 1))
        if key not in memo:
            memo[key] = sum(rec(level + 1, nu, nl) for _, nu, nl in _extend(level, used, left, kmax, plain))
        return memo[key]

    return rec(0, 0, maxreq)


def chains(length: int, kmax: int, maxreq: int, plain: bool = False) -> Iterator[list[Any]]:
    """Family S skeleton chains (root first): at most ``maxreq`` required flags; ``plain`` = no super either."""
    for prefix, used, left in chain_prefixes(length, kmax, maxreq, plain):
        yield from complete(prefix, used, left, length, kmax, plain)


# ---------------------------------------------------------------------------
# skeleton -> abstract program
# ---------------------------------------------------------------------------
WRAPS = ("for", "if", "unless", "case")
BLANK_BODIES = ("empty", "ws")
BLOCK_DECOS = (
    ("for_around", "for_inside", "for_i", "var", "endname", "super_last", "super_twice", "super_in_for",
     "root_super", "wrap_if", "wrap_unless", "wrap_case", "body_empty", "body_ws")
    # the placeholder shape: a block with an empty / whitespace-only body alone inside a control-flow tag
    + tuple(f"wrap_{w}+body_{b}" for w in WRAPS for b in BLANK_BODIES)
    # readers: EVERY block body of the chain prints {{ i }}{{ forloop.index }}{{ w }}; the site block sits in a
    # for / with / for+with, or its body (super and nested blocks included) sits in a for / with
    + ("read_for", "read_with", "read_for_with", "read_for_inside", "read_with_inside")
)
READERS = [["loopvar"], ["forindex"], ["withvar"]]
TEMPLATE_DECOS = ("stray_var", "stray_for", "root_var")


def build_block(name: str, level: int, req: int, sup: int, children: list[Any], deco: Optional[str],
                readers: bool = False) -> Any:
    open_ = ["text", f"[{name}{level}"]
    close = ["text", "]"]
    s = ["super"]
    endname = None
    wrap = None
    if readers:
        reads = [list(r) for r in READERS]
        body = [open_] + reads + ([s] if sup else []) + children + [close]
        if deco == "read_for_inside":
            body = [open_, ["for", reads + ([s] if sup else []) + children], close]
        elif deco == "read_with_inside":
            body = [open_, ["with", reads + ([s] if sup else []) + children], close]
        node = ["block", name, bool(req), body, None]
        if deco == "read_for":
            node = ["for", [node]]
        elif deco == "read_with":
            node = ["with", [node]]
        elif deco == "read_for_with":
            node = ["for", [["with", [node]]]]
        return node
    if deco and deco.startswith("wrap_"):
        wrap, _, rest = deco[5:].partition("+")
        deco = rest or None
    elif deco == "for_around":
        wrap, deco = "for", None
    if deco == "root_super":
        sup = 1
    pre = [s] if sup else []
    body = [open_] + pre + children + [close]
    if deco == "var":
        body = [open_, ["var"]] + pre + children + [close]
    elif deco == "for_i":
        body = [open_, ["for", [["loopvar"]]]] + pre + children + [close]
    elif deco == "for_inside":
        body = [["for", body]]
    elif deco == "super_last":
        body = [open_] + children + [s, close]
    elif deco == "super_twice":
        body = [open_, s] + children + [s, close]
    elif deco == "super_in_for":
        body = [open_, ["for", [s]]] + children + [close]
    elif deco == "endname":
        endname = name
    elif deco == "body_empty":
        # no text of its own, no super: nothing at all, or nothing but its nested blocks
        body = list(children)
    elif deco == "body_ws":
        body = [["text", " \n"]] + children
    node = ["block", name, bool(req), body, endname]
    if wrap is not None:
        node = [wrap, [node]]  # the block is the only node of the control-flow body
    return node


def deco_applicable(deco: str, level: int, sup: int) -> bool:
    if deco in ("super_last", "super_twice", "super_in_for"):
        return bool(sup)
    if deco == "root_super":
        return level == 0
    return True


def build_template(skel: Any, level: int, deco: Optional[tuple[str, int]], readers: bool = False) -> Any:
    """deco = (kind, block index in preorder) or (template kind, -1) or None."""
    forest, names, styles = skel
    counter = [0]

    def tree(t: Any) -> Any:
        i = counter[0]
        counter[0] += 1
        kids = [tree(c) for c in t]
        d = deco[0] if deco is not None and deco[1] == i else None
        req, sup = styles[i]
        return build_block(POOL[names[i]], level, req, sup, kids, d, readers)

    tops = [tree(t) for t in forest]
    mark = "r" if level == 0 else f"~{level}"
    nodes: list[Any] = [["text", f"{mark}0"]]
    if deco is not None and deco[1] == -1:
        if deco[0] in ("stray_var", "root_var"):
            nodes.append(["var"])
        elif deco[0] == "stray_for":
            nodes.append(["for", [["text", "~f"]]])
    for k, b in enumerate(tops):
        nodes.append(b)
        nodes.append(["text", f"{mark}{k + 1}"])
    return {"extends": [f"t{level - 1}"] if level else [], "nodes": nodes}


def build_program(skels: list[Any], deco: Optional[tuple[str, int, int]] = None) -> Any:
    """deco = (kind, level, block index | -1)."""
    T = {}
    for level, sk in enumerate(skels):
        d = (deco[0], deco[2]) if deco is not None and deco[1] == level else None
        T[f"t{level}"] = build_template(sk, level, d, deco is not None and deco[0].startswith("read_"))
    return {"templates": T, "leaf": f"t{len(skels) - 1}"}


def deco_sites(skels: list[Any]) -> Iterator[tuple[str, int, int]]:
    for level, (forest, names, styles) in enumerate(skels):
        for i in range(len(names)):
            for d in BLOCK_DECOS:
                if deco_applicable(d, level, styles[i][1]):
                    yield (d, level, i)
        if level == 0:
            yield ("root_var", 0, -1)
        else:
            yield ("stray_var", level, -1)
            yield ("stray_for", level, -1)


# -- error shapes -------------------------------------------------------------
def find_block(nodes: Any, idx: int) -> Any:
    """(container list, position, block node) of the idx-th block in preorder."""
    counter = [0]

    def rec(lst: Any) -> Any:
        for pos, n in enumerate(lst):
            if n[0] == "block":
                if counter[0] == idx:
                    return lst, pos, n
                counter[0] += 1
                r = rec(n[3])
                if r:
                    return r
            elif n[0] in M.WRAPPERS:
                r = rec(n[1])
                if r:
                    return r
        return None

    return rec(nodes)


def error_programs(skels: list[Any]) -> Iterator[tuple[str, Any]]:
    """Single-error mutants of a plain chain."""
    import copy

    base = build_program(skels)
    n = len(skels)
    for level, (forest, names, styles) in enumerate(skels):
        tname = f"t{level}"
        for i in range(len(names)):
            name = POOL[names[i]]
            dup = ["block", name, False, [["text", f"[{name}{level}'"], ["text", "]"]], None]
            for how in ("sibling", "child", "end", "in_for"):
                p = copy.deepcopy(base)
                lst, pos, node = find_block(p["templates"][tname]["nodes"], i)
                if how == "sibling":
                    lst.insert(pos + 1, dup)
                elif how == "child":
                    node[3].insert(1, dup)
                elif how == "end":
                    p["templates"][tname]["nodes"].append(dup)
                else:
                    p["templates"][tname]["nodes"].append(["for", [dup]])
                yield f"dup_{how}", p
            for other in POOL:
                if other != name:
                    p = copy.deepcopy(base)
                    _, _, node = find_block(p["templates"][tname]["nodes"], i)
                    node[4] = other
                    yield "endblock_mismatch", p
        if level > 0:
            for how in ("same", "root", "end"):
                p = copy.deepcopy(base)
                t = p["templates"][tname]
                if how == "same":
                    t["extends"] = [t["extends"][0], t["extends"][0]]
                elif how == "root":
                    if level == 1:
                        continue
                    t["extends"] = [t["extends"][0], "t0"]
                else:
                    # a second extends tag at the end of the template: printed through a text node
                    t["extends"] = [t["extends"][0], t["extends"][0]]
                    t["late_extends"] = True
                yield f"two_extends_{how}", p
    _ = n


def cycle_programs(max_tail: int) -> Iterator[tuple[str, Any]]:
    for clen in (1, 2, 3):
        for tail in range(max_tail + 1):
            total = clen + tail
            # templates c0..c{clen-1} form the cycle (ci extends c(i+1 mod clen)); tail templates
            # l0 (leaf) .. extend down into c0.
            names = [f"l{i}" for i in range(tail)] + [f"c{i}" for i in range(clen)]
            for mask in itertools.product((0, 1, 2), repeat=total):
                if sum(1 for m in mask if m == 2) > 1:
                    continue
                T = {}
                for idx, nm in enumerate(names):
                    if idx < tail:
                        parent = names[idx + 1]
                    else:
                        parent = f"c{(idx - tail + 1) % clen}"
                    nodes: list[Any] = [["text", f"~{nm}"]]
                    if mask[idx] == 1:
                        nodes.append(["block", "a", False, [["text", f"[a{nm}"], ["text", "]"]], None])
                    elif mask[idx] == 2:
                        nodes.append(["block", "a", False, [["text", f"[a{nm}"], ["super"], ["text", "]"]], None])
                    T[nm] = {"extends": [parent], "nodes": nodes}
                yield f"cycle{clen}_tail{tail}", {"templates": T, "leaf": names[0]}


# ---------------------------------------------------------------------------
# execution
# ---------------------------------------------------------------------------
def sources_of(prog: Any) -> dict[str, str]:
    src = M.print_program(prog)
    for name, t in prog["templates"].items():
        if t.get("late_extends"):
            # the second extends goes to the end of the template instead of the start
            first = "{% extends '" + t["extends"][0] + "' %}"
            second = "{% extends '" + t["extends"][1] + "' %}"
            src[name] = first + M.print_nodes(t["nodes"]) + second
    return src


def observe(sources: dict[str, str], leaf: str) -> dict[str, Any]:
    from mc.util import make_env
    from mc.util import outcome
    from mc.util import run_coro

    obs = {}
    env = make_env(templates=sources, extra=True)  # fresh per case; the DictLoader does not cache
    for api in ("sync", "async"):
        if api == "sync":
            o = outcome(lambda: env.get_template(leaf).render(**M.DATA))
        else:
            async def go() -> str:
                t = await env.get_template_async(leaf)
                return await t.render_async(**M.DATA)

            o = outcome(lambda: run_coro(go()))
        if o.ok:
            obs[api] = ("ok", o.value)
        elif o.is_liquid_error:
            obs[api] = ("liquid", o.error_class)
        else:
            obs[api] = ("other", o.error_class, o.where)
    return obs


def is_subclass_of_liquid_error(cls_name: str) -> bool:
    import liquid.exceptions as E

    c = getattr(E, cls_name, None)
    return isinstance(c, type) and issubclass(c, E.LiquidError)


def judge(prog: Any, family: str, shape: str) -> tuple[list[dict[str, Any]], str, Any, dict[str, Any]]:
    """Run one program; returns (violations, outcome label, nontrivial id | None, expectation)."""
    exp = M.expected(prog)
    sources = sources_of(prog)
    leaf = prog["leaf"]
    if exp["kind"] == "unspecified" and exp["why"] == "resolution-re-enters-active-definition":
        # By the statement's own rules the resolution never ends; no output is prescribed and the real
        # engine can only run into one of its limits.  Counted, not executed (each costs a full descent
        # to the context depth limit).
        return [], "excluded:" + exp["why"] + ":not-executed", None, exp
    obs = observe(sources, leaf)
    stats = exp["stats"]
    L = stats["chain_len"]
    viols: list[dict[str, Any]] = []
    case = {"program": prog, "family": family, "shape": shape, "sources": sources}
    kind = exp["kind"]

    def got_label(o: Any) -> str:
        return "ok" if o[0] == "ok" else o[1]

    if kind == "unspecified":
        label = f"excluded:{exp['why']}:{got_label(obs['sync'])}"
        return viols, label, None, exp

    for api in ("sync", "async"):
        o = obs[api]
        sig: Optional[dict[str, Any]] = None
        want = ""
        if kind == "ok":
            want = repr(exp["output"])
            if o != ("ok", exp["output"]):
                feature = "super" if stats["max_super_depth"] else ("nested" if stats["cross_level_nested"] else "plain")
                sig = {"clause": "output", "got": got_label(o), "feature": feature}
        elif kind == "error":
            want = exp["cls"]
            if not (o[0] == "liquid" and o[1] == exp["cls"]):
                sig = {"clause": exp["why"], "want": exp["cls"], "got": got_label(o)}
        elif kind == "reject":
            want = "a LiquidError"
            if o[0] != "liquid":
                sig = {"clause": exp["why"] + "-rejected", "got": got_label(o)}
        if sig is not None:
            sig.update(api=api, chain_len=L, shape=shape.split(":")[0])
            viols.append({
                "signature": sig,
                "what": f"render({leaf}) of {sources} [{api}]: got {o!r}, statement/docs prescribe {want} "
                        f"({exp.get('why', 'most-derived resolution')})",
                "case": case,
            })
    if viols:
        label = "VIOL:" + viols[0]["signature"]["clause"]
    elif kind == "ok":
        label = (f"ok:L{L}:sup{stats['max_super_depth']}:nest{min(stats['cross_level_nested'], 2)}"
                 f":ovr{min(stats['overridden_resolved'], 3)}"
                 + (":scoped-read-across-block" if stats.get("bound_reads_across_block") else ""))
    elif kind == "error":
        label = f"raises:{exp['cls']}:{exp['why']}:L{L}"
    else:
        label = f"rejected:{exp['why']}:{obs['sync'][1]}:L{L}"
    nontrivial = None
    if kind in ("error", "reject") or (L >= 2 and stats.get("names_defined_twice", 0) >= 1):
        nontrivial = [sources, leaf]
    return viols, label, nontrivial, exp


# ---------------------------------------------------------------------------
TIERS: dict[str, dict[str, Any]] = {
    "quick": {
        # S: (length, max blocks per template, max required flags in the chain)
        "S": [(1, 3, UNBOUNDED), (2, 2, UNBOUNDED), (2, 3, 1), (3, 1, UNBOUNDED), (3, 2, 1)],
        # D / E: (length, max blocks per template)
        "D": [(1, 3), (2, 2), (3, 1)],
        "E": [(1, 3), (2, 2), (3, 1)],
        "cycle_tail": 1,
    },
    "thorough": {
        "S": [(1, 3, UNBOUNDED), (2, 3, UNBOUNDED), (3, 2, UNBOUNDED), (3, 3, 0), (4, 1, UNBOUNDED), (4, 2, 0)],
        "D": [(1, 3), (2, 3), (3, 2), (4, 1)],
        "E": [(1, 3), (2, 3), (3, 2), (4, 1)],
        "cycle_tail": 2,
    },
}
TARGET_PER_SHARD = {"quick": 2000, "thorough": 25000}


class C18(Check):
    id = "C18"
    level = "exploration"
    rule = (
        "Every abstract inheritance program inside the bound is printed to a DictLoader (extra=True "
        "environment) and rendered from its leaf, sync and async; both results must equal the reference "
        "resolver's prescription (output string, RequiredBlockError, TemplateInheritanceError for cycles, any "
        "LiquidError for duplicate block names / mismatched endblock). Families: S = all chains of the stated "
        "length with <= K blocks per template (all forest shapes, names canonical up to renaming, every block "
        "required/not x super/not); D = every unrequired chain x one decoration at every site (for around a "
        "block, for around a body, for printing its loop variable, {{ x }}, super last/twice/in a for, endblock "
        "name, super in a root block, stray var/for in a child, top-level var in the root); E = every plain chain "
        "x one error shape at every site (duplicate as sibling/child/at end/in for, mismatched endblock, two "
        "extends) and extends cycles of length 1..3 behind tails. Non-trivial = the chain has >= 2 templates "
        "and some block name is defined in >= 2 of them, or the program is an error shape with an oracle; "
        "distinct = distinct printed sources. Cases whose prescription is unspecified are executed, excluded "
        "from the verdict and counted."
    )
    assumptions = [
        "block names are interchangeable identifiers (canonical renaming a,b,c)",
        "loops iterate the literal range (1..2); render data is {x: 'X'}; no whitespace control; default (strict) mode, default Undefined",
        "the whitespace emitted by a rendered definition whose body is only whitespace (statement: the definition; engine: blank suppression) is unspecified: such definitions are generated as placeholders and judged only when overridden",
        "block.super in a definition with nothing above it, two extends tags, unreached unsatisfied required blocks, names bound around a definition in its own template but not where it is rendered, names bound inside an overriding body and read through block.super, and self-re-entering resolutions are unspecified by statement/docs and excluded",
        "'rejected' (duplicate names, mismatched endblock) is read as: a LiquidError is raised instead of output",
    ]

    def bounds(self, tier: str) -> dict[str, Any]:
        t = TIERS[tier]
        return {
            "S (chain length, max blocks per template, max required flags in the chain; 99 = unbounded)": t["S"],
            "D (chain length, max blocks per template): no required flag, exactly one decoration, every site": t["D"],
            "E (chain length, max blocks per template): no required/super, exactly one error shape, every site": t["E"],
            "cycles": f"cycle length 1..3 behind a tail of 0..{t['cycle_tail']} templates; every template with no "
                      "block / a block / (at most one) a block with super",
            "block names": "pool {a,b,c}, distinct per template, canonical up to renaming; all ordered forest shapes",
            "loops": "for i in (1..2)", "data": M.DATA, "apis": ["render", "render_async"],
        }

    def shards(self, tier: str) -> list[Any]:
        t = TIERS[tier]
        target = TARGET_PER_SHARD[tier]
        sh: list[Any] = []

        def split(fam: str, L: int, K: int, R: int, plain: bool, weight: int) -> None:
            # shard unit = a two-level chain prefix (stride i mod n); n chosen so a shard holds ~target cases
            pre = chain_prefixes(L, K, R, plain)
            est = count_chains(L, K, R, plain) * weight
            n = max(1, min(len(pre), round(est / target)))
            sh.extend((fam, L, K, R, i, n) for i in range(n))

        for (L, K, R) in t["S"]:
            split("S", L, K, R, False, 1)
        for (L, K) in t["D"]:
            split("D", L, K, 0, False, 17 * K * L)
        for (L, K) in t["E"]:
            split("E", L, K, 0, True, 4 * K * L)
        sh.append(("C", t["cycle_tail"]))
        return sh

    def cases(self, shard: Any) -> Iterator[tuple[str, str, Any]]:
        fam = shard[0]
        if fam == "C":
            for shape, prog in cycle_programs(shard[1]):
                yield "E", shape, prog
            return
        _, L, K, R, i, n = shard
        plain = fam == "E"
        for j, (prefix, used, left) in enumerate(chain_prefixes(L, K, R, plain)):
            if j % n != i:
                continue
            for skels in complete(prefix, used, left, L, K, plain):
                if fam == "S":
                    yield "S", "chain", build_program(skels)
                elif fam == "D":
                    for deco in deco_sites(skels):
                        yield "D", deco[0], build_program(skels, deco)
                else:
                    for shape, prog in error_programs(skels):
                        yield "E", shape, prog

    def run_shard(self, shard: Any, tier: str) -> Result:
        from mc.util import reset_memo

        res = Result()
        reset_memo()
        for family, shape, prog in self.cases(shard):
            viols, label, nontrivial, exp = judge(prog, family, shape)
            sample = None
            if len(res.samples) < 1 and nontrivial is not None and exp["kind"] == "ok" and \
                    exp["stats"].get("max_super_depth", 0) >= 1:
                sample = {"family": family, "shape": shape, "sources": sources_of(prog), "leaf": prog["leaf"],
                          "expected": exp.get("output")}
            if label.endswith(":not-executed"):
                res.count("unspecified_excluded")
                res.count("unspecified_not_executed:" + exp["why"])
                continue
            res.case(nontrivial=nontrivial, outcome=label, sample=sample)
            res.count(f"family_{family}")
            if exp["kind"] == "unspecified":
                res.count("unspecified_excluded")
                res.count("unspecified:" + exp["why"])
            if exp["kind"] == "ok" and exp["stats"].get("super_into_required"):
                res.count("super_into_required_definition")
            for v in viols:
                res.violation(v["signature"], v["what"], v["case"])
        return res

    def replay(self, case: Any) -> list[dict[str, Any]]:
        viols, _, _, _ = judge(case["program"], case.get("family", "?"), case.get("shape", "?"))
        return viols


CHECK = C18()
